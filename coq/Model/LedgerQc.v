(* Model/LedgerQc.v — the ledger model over CANONICAL rationals (Qc: reduced fractions, Leibniz
   equality).  Every finite IEEE double is a rational, so this instance covers every float input
   under exact arithmetic, and its theorems (Props/C02.v, `_rational`) are axiom-free.
   The kernels are the functions regenerated from /repo over Q (through Model/LedgerQ.v), applied to
   the underlying fractions, results brought back to lowest terms.  Definitions only. *)
From Coq Require Import ZArith QArith Qcanon Qminmax Qabs Qround List Bool.
From ACN Require Import Base.Num Base.ListX Gen.Ledger_Q Model.EVSE Model.Ledger Model.LedgerQ.
Import ListNotations.

Definition QcO : fops Qc :=
  {| o0 := Q2Qc 0; o1 := Q2Qc 1; oadd := Qcplus; osub := Qcminus; omul := Qcmult; odiv := Qcdiv;
     oofZ := fun z => Q2Qc (inject_Z z);
     omax := fun a b => Q2Qc (Qmax (this a) (this b));
     oltb := fun a b => Qltb (this a) (this b);
     oeqb := fun a b => Qeqb (this a) (this b);
     osqrt := fun a => Q2Qc (qsqrt (this a)) |}.

Definition batt_to_Q (b : batt Qc) : batt Q :=
  mk_batt (b_kind b) (this (b_cap b)) (this (b_cur b)) (this (b_pow b)) (this (b_maxp b))
          (this (b_noise b)) (this (b_tsoc b)).
Definition batt_of_Q (b : batt Q) : batt Qc :=
  mk_batt (b_kind b) (Q2Qc (b_cap b)) (Q2Qc (b_cur b)) (Q2Qc (b_pow b)) (Q2Qc (b_maxp b))
          (Q2Qc (b_noise b)) (Q2Qc (b_tsoc b)).

Definition batt_step_Qc (b : batt Qc) (p v t : Qc) (n : Qc * Qc) : option (Qc * batt Qc) :=
  match batt_step_Q (batt_to_Q b) (this p) (this v) (this t) (this (fst n), this (snd n)) with
  | Some (r, b') => Some (Q2Qc r, batt_of_Q b')
  | None => None
  end.

Definition set_pilot_Qc (ev : option Z) (p v t : Qc) (valid : bool) : option (option (Qc * Qc * Qc)) :=
  match set_pilot_Q ev (this p) (this v) (this t) valid with
  | None => None
  | Some None => Some None
  | Some (Some (a, b, c)) => Some (Some (Q2Qc a, Q2Qc b, Q2Qc c))
  end.

Definition ev_charge_Qc (e p v t r : Qc) : Qc * Qc * Qc :=
  let '(a, b, c) := ev_charge_Q (this e) (this p) (this v) (this t) (this r) in
  (Q2Qc a, Q2Qc b, Q2Qc c).

Definition KQc : kern Qc (batt Qc) :=
  {| k_set_pilot := set_pilot_Qc; k_ev_charge := ev_charge_Qc; k_bstep := batt_step_Qc;
     k_bcharge := b_cur;
     k_rate_elt := fun o d => Q2Qc (CN_current_rate_elt (option_map this o) (this d));
     k_peak := fun a b => Q2Qc (Sim_peak_update (this a) (this b));
     k_peak_init := Q2Qc Sim_peak_init |}.

(* a two-stage battery in continuous mode divides by its capacity (ZeroDivisionError when 0) *)
Definition batt_ok_Qc (b : batt Qc) : Prop :=
  match b_kind b with BL2cont => b_cap b <> Q2Qc 0 | _ => True end.

(* stations of a correspondence case, over Qc *)
Definition mk_net_Qc (l : list (Z * Q * evse_kind)) : list (stn (F:=Qc)) :=
  map (fun x => let '(i, v, k) := x in mk_stn i (Q2Qc v) (fun p => valid_rate k (this p))) l.

(* ---------------------------------------------------------------- correspondence on the Qc instance *)
Definition batt_in (b : batt Q) : batt Qc := batt_of_Q b.
Definition op_in (o : @op Q (batt Q)) : @op Qc (batt Qc) :=
  match o with
  | Plugin s x b => Plugin s x (batt_in b)
  | Unplug s x => Unplug s x
  | Step ps ns => Step (map Q2Qc ps) (map (fun n => (Q2Qc (fst n), Q2Qc (snd n))) ns)
  end.

Fixpoint find_ev_Qc (x : Z) (l : list (@ev Qc (batt Qc))) : option (@ev Qc (batt Qc)) :=
  match l with
  | [] => None
  | e :: r => if Z.eqb (e_sid e) x then Some e else find_ev_Qc x r
  end.

(* the same comparison as Model/LedgerQ.check_c02, but the model that is run is the Qc instance --
   the one the axiom-free theorems C02_*_rational are about *)
Definition check_c02_qc (c : c02case) : bool :=
  let net := mk_net_Qc (c_net c) in
  let T := Q2Qc (c_period c) in
  match simulate QcO KQc T net (map op_in (c_ops c)) with
  | None =>
      (* the implementation aborted in its last recorded operation: the model must fail exactly there *)
      negb (i_ok c)
      && match simulate QcO KQc T net (map op_in (removelast (c_ops c))) with Some _ => true | None => false end
  | Some st =>
      let rs := map (map this) (rates_by_period st) in
      i_ok c
      && list_eqb Qlist_close rs (i_rates c)
      && list_eqb (list_eqb (option_eqb Z.eqb)) (occupancy_by_period st) (i_occ c)
      && Qclose (this (peak st)) (i_peak c)
      && Nat.eqb (List.length (all_evs st)) (List.length (i_evs c))
      && forallb (fun r => let '(x, (en, ch, chj, cr)) := r in
                   match find_ev_Qc x (all_evs st) with
                   | None => false
                   | Some e => Qclose (this (e_energy e)) en && Qclose (this (b_cur (e_batt e))) ch
                               && Qclose (this (b_cur (e_batt e))) chj && Qclose (this (e_rate e)) cr
                               && Qclose (this (e_energy e)) (this (ledger_sum QcO T net (cols st) (occs st) x))
                   end) (i_evs c)
      && Qclose (this (fsum QcO (map e_energy (all_evs st)))) (i_total c)
      && Qlist_close (map (fun col => this (fsum QcO col)) (rates_by_period st)) (i_agg_current c)
      && Qlist_close (map (fun col => this (column_energy QcO (Q2Qc 60) net col)) (rates_by_period st)) (i_agg_power c)
  end.

(* the ledger equalities evaluated EXACTLY by the Qc instance on its own run (Example C02_exec_example) *)
Definition Qc_eqb (a b : Qc) : bool := Qeq_bool (this a) (this b).
Definition ledger_exact_Qc (T : Q) (net : list (Z * Q * evse_kind)) (ops : list (@op Q (batt Q))) : bool :=
  let net' := mk_net_Qc net in
  let ops' := map op_in ops in
  let T' := Q2Qc T in
  match simulate QcO KQc T' net' ops' with
  | None => false
  | Some st =>
      forallb (fun e =>
                 Qc_eqb (e_energy e) (ledger_sum QcO T' net' (cols st) (occs st) (e_sid e))
                 && match init_charge KQc ops' (e_sid e) with
                    | Some c0 => Qc_eqb (e_energy e) (Qcminus (b_cur (e_batt e)) c0) && Qltb 0 (this (e_energy e))
                    | None => false
                    end) (all_evs st)
      && Qc_eqb (fsum QcO (map e_energy (all_evs st))) (fsum QcO (map (column_energy QcO T' net') (cols st)))
      && Qc_eqb (peak st) (peak_of QcO (cols st))
      && Nat.eqb (List.length (all_evs st)) 3
  end.
