(* Model/Tariff.v — executable model of acnportal/signals/tariffs/tou_tariff.py, of the price
   accessors of acnsim/interface.py and of analysis.energy_cost / demand_charge.  Definitions only.

   Instants are *naive wall-clock* datetimes as integer microseconds since the (fictitious) midnight of
   proleptic ordinal 0:  t = (toordinal * 86400 + hour*3600 + minute*60 + second) * 10^6 + microsecond.
   (A tz-aware datetime enters the tariff code only through its wall-clock fields and `+ timedelta`,
   which is wall-clock arithmetic, so the same representation covers aware datetimes.)
   Hours since midnight, prices and powers are exact rationals.

   Translated pieces (Gen/TariffK_Z.v, Gen/TariffK_Q.v, regenerated on every run) are *called* here:
   Tariff_valid, Tariff_wraps, Tariff_wrap_copy_start, Tariff_wrap_orig_end, Tariff_mask_*, Tariff_step_time, Iface_price_start, Iface_demand_start,
   Tariff_target_hour, Tariff_bp_test, Analysis_energy_cost, Analysis_demand_charge. *)
From Coq Require Import ZArith QArith Qminmax Qround List Bool String.
From ACN Require Import Base.Num Base.Lex Base.Sort Base.Calendar Base.TariffRaw
                        Gen.Tariffs Gen.TariffK_Z Gen.TariffK_Q.
Import ListNotations.
Open Scope string_scope.

(* ------------------------------------------------------------------ TariffSchedule *)
Record sched := {
  s_id : string;
  s_start : list Z;              (* (month, day) the schedule takes effect *)
  s_end : list Z;                (* (month, day) of its last day *)
  s_mask : list bool;            (* index 0 = Monday … 6 = Sunday *)
  s_tariffs : list (Q * Q);      (* (hours since midnight, $/kWh), sorted ascending as tuples *)
  s_demand : Q
}.

Definition weekdays_mask : list bool := Tariff_mask_weekdays 0.     (* [True] * 5 + [False] * 2, translated *)
Definition weekends_mask : list bool := Tariff_mask_weekends 0.
Definition all_mask : list bool := Tariff_mask_all 0.

Definition mask_of (s : string) : res (list bool) :=
  if String.eqb s "WEEKDAYS" then Ok weekdays_mask
  else if String.eqb s "WEEKENDS" then Ok weekends_mask
  else if String.eqb s "ALL" then Ok all_mask
  else Err "ValueError:dow_mask".

(* [(times[i], tariffs[i]) for i in range(len(times))] *)
Fixpoint zip_tt (times tariffs : list Q) : res (list (Q * Q)) :=
  match times with
  | [] => Ok []
  | t :: ts =>
      match tariffs with
      | [] => Err "IndexError"
      | r :: rs => res_map (cons (t, r)) (zip_tt ts rs)
      end
  end.

(* Python tuple order on (time, tariff) *)
Definition pair_leb (a b : Q * Q) : bool :=
  Qltb (fst a) (fst b) || (Qeqb (fst a) (fst b) && Qleb (snd a) (snd b)).
Definition pair_geb (a b : Q * Q) : bool := pair_leb b a.

Definition build_schedule (r : raw_schedule) : res sched :=
  res_bind (mask_of (rs_mask r)) (fun mask =>
  res_bind (zip_tt (rs_times r) (rs_tariffs r)) (fun tt =>
  let sorted := isort pair_leb tt in
  match sorted with
  | [] => Err "IndexError"
  | first :: _ =>
      if negb (Qeqb (fst first) 0) then Err "ValueError:start0"
      else Ok {| s_id := rs_id r; s_start := rs_start r; s_end := rs_end r; s_mask := mask;
                 s_tariffs := sorted; s_demand := rs_demand r |}
  end)).

Fixpoint build_all (l : list raw_schedule) : res (list sched) :=
  match l with
  | [] => Ok []
  | r :: rest => res_bind (build_schedule r) (fun s => res_map (cons s) (build_all rest))
  end.

(* ------------------------------------------------------------------ TimeOfUseTariff.__init__ *)
Definition wraps (s : sched) : bool := Tariff_wraps (s_end s) (s_start s) 0 0.

Definition set_start (s : sched) (v : list Z) : sched :=
  {| s_id := s_id s; s_start := v; s_end := s_end s; s_mask := s_mask s;
     s_tariffs := s_tariffs s; s_demand := s_demand s |}.
Definition set_end (s : sched) (v : list Z) : sched :=
  {| s_id := s_id s; s_start := s_start s; s_end := v; s_mask := s_mask s;
     s_tariffs := s_tariffs s; s_demand := s_demand s |}.

(* for s in schedule: if s.end < s.start: copy with start (1,1) is appended, s.end = (12,31) *)
Definition split_wrap (l : list sched) : list sched :=
  map (fun s => if wraps s then set_end s (Tariff_wrap_orig_end 0 0) else s) l
  ++ flat_map (fun s => if wraps s then [set_start s (Tariff_wrap_copy_start 0 0)] else []) l.

Definition start_leb (a b : sched) : bool := lex_leb (s_start a) (s_start b).

Definition finalize (l : list sched) : list sched := isort start_leb (split_wrap l).

Definition build (raw : list raw_schedule) : res (list sched) :=
  res_map finalize (build_all raw).

(* ------------------------------------------------------------------ _get_tariff_schedule *)
Definition sched_valid (s : sched) (m d wd : Z) : bool :=
  Tariff_valid d m (s_mask s) (s_end s) (s_start s) 0 wd.

Definition valid_schedules (TS : list sched) (m d wd : Z) : list sched :=
  filter (fun s => sched_valid s m d wd) TS.

Definition pick_schedule (TS : list sched) (m d wd : Z) : res sched :=
  match valid_schedules TS m d wd with
  | [] => Err "ValueError:none"
  | [s] => Ok s
  | _ => Err "ValueError:many"
  end.

(* wall-clock fields of an instant in microseconds *)
Definition us_per_s : Z := 1000000.
Definition secs (t : Z) : Z := (t / us_per_s)%Z.
Definition t_month (t : Z) := month_of (ord_of (secs t)).
Definition t_day (t : Z) := day_of (ord_of (secs t)).
Definition t_weekday (t : Z) := weekday (ord_of (secs t)).
Definition t_hour (t : Z) := hour_of (secs t).
Definition t_minute (t : Z) := minute_of (secs t).
Definition t_second (t : Z) := second_of (secs t).

Definition schedule_at (TS : list sched) (t : Z) : res sched :=
  pick_schedule TS (t_month t) (t_day t) (t_weekday t).

(* ------------------------------------------------------------------ get_tariff *)
Definition target_hour (t : Z) : Q :=
  Tariff_target_hour (inject_Z (t_hour t)) (inject_Z (t_minute t)) (inject_Z (t_second t)) 0.

(* for r in sorted(tariffs, reverse=True): if target_hour >= r[0]: return r[1] *)
Definition lookup (tariffs : list (Q * Q)) (th : Q) : option Q :=
  option_map snd (find (fun r => Tariff_bp_test r th 0) (isort pair_geb tariffs)).

Definition get_tariff (TS : list sched) (t : Z) : res Q :=
  res_bind (schedule_at TS t) (fun s =>
  match lookup (s_tariffs s) (target_hour t) with
  | Some p => Ok p
  | None => Err "ValueError:price"
  end).

(* [self.get_tariff(start + k * timedelta(minutes=period)) for k in range(length)] — evaluated left to
   right, the first exception ends the comprehension *)
Fixpoint get_tariffs_loop (TS : list sched) (start length period : Z) (k : Z) (n : nat) : res (list Q) :=
  match n with
  | O => Ok []
  | S n' =>
      res_bind (get_tariff TS (Tariff_step_time k start length period)) (fun p =>
      res_map (cons p) (get_tariffs_loop TS start length period (k + 1) n'))
  end.

Definition get_tariffs (TS : list sched) (start length period : Z) : res (list Q) :=
  get_tariffs_loop TS start length period 0 (Z.to_nat length).

Definition get_demand_charge (TS : list sched) (t : Z) : res Q :=
  res_map s_demand (schedule_at TS t).

(* ------------------------------------------------------------------ Interface *)
Record simview := {
  sim_start : Z;                 (* Simulator.start, microseconds *)
  sim_period : Z;                (* minutes *)
  sim_iteration : Z;
  sim_tariff : option (list sched)     (* signals["tariff"] if present *)
}.

Definition iface_get_prices (sim : simview) (length : Z) (start : option Z) : res (list Q) :=
  match sim_tariff sim with
  | None => Err "ValueError:nopricing"
  | Some TS =>
      let st := match start with None => sim_iteration sim | Some s => s end in
      get_tariffs TS (Iface_price_start (sim_period sim) (sim_start sim) length st) length (sim_period sim)
  end.

Definition iface_get_demand_charge (sim : simview) (start : option Z) : res Q :=
  match sim_tariff sim with
  | None => Err "ValueError:nopricing"
  | Some TS =>
      let st := match start with None => sim_iteration sim | Some s => s end in
      get_demand_charge TS (Iface_demand_start (sim_period sim) (sim_start sim) st)
  end.

(* ------------------------------------------------------------------ fractional simulation periods *)
(* Simulator.period may be a float number of minutes (2.5, 0.5, 7.5 …).  timedelta(minutes=p) is p * 6e7
   microseconds; the rational kernels (Gen/TariffK_Q.v, the same source expressions) compute that product exactly
   and the instant is its integer part — exact whenever p * 6e7 is a whole number of microseconds, which is the
   domain the correspondence uses (timedelta rounds other values to the nearest microsecond; not modelled). *)
Definition instant_of_q (x : Q) : Z := Qfloor x.

Fixpoint get_tariffs_loop_q (TS : list sched) (start length : Z) (period : Q) (k : Z) (n : nat) : res (list Q) :=
  match n with
  | O => Ok []
  | S n' =>
      res_bind (get_tariff TS (instant_of_q (Tariff_step_time_q (inject_Z k) (inject_Z start) (inject_Z length) period)))
               (fun p => res_map (cons p) (get_tariffs_loop_q TS start length period (k + 1) n'))
  end.

Definition get_tariffs_q (TS : list sched) (start length : Z) (period : Q) : res (list Q) :=
  get_tariffs_loop_q TS start length period 0 (Z.to_nat length).

Definition iface_get_prices_q (tariff : option (list sched)) (sim_start : Z) (period : Q) (iteration : Z)
           (length : Z) (start : option Z) : res (list Q) :=
  match tariff with
  | None => Err "ValueError:nopricing"
  | Some TS =>
      let st := match start with None => iteration | Some s => s end in
      get_tariffs_q TS (instant_of_q (Iface_price_start_q period (inject_Z sim_start) (inject_Z length) (inject_Z st)))
                    length period
  end.

Definition iface_get_demand_charge_q (tariff : option (list sched)) (sim_start : Z) (period : Q) (iteration : Z)
           (start : option Z) : res Q :=
  match tariff with
  | None => Err "ValueError:nopricing"
  | Some TS =>
      let st := match start with None => iteration | Some s => s end in
      get_demand_charge TS (instant_of_q (Iface_demand_start_q period (inject_Z sim_start) (inject_Z st)))
  end.

(* ------------------------------------------------------------------ analysis *)
Fixpoint Qdot (a b : list Q) : Q :=
  match a, b with
  | x :: a', y :: b' => x * y + Qdot a' b'
  | _, _ => 0
  end.

(* aggregate_power: voltages . charging_rates / 1000, one entry per period; the rate matrix is given
   time-major (a list of columns, each over the stations in network order) *)
Definition aggregate_power (voltages : list Q) (cols : list (list Q)) : list Q :=
  map (fun col => Qdot voltages col / 1000) cols.

Definition energy_cost_agg (TS : list sched) (start period : Z) (agg : list Q) : res Q :=
  res_map (fun prices => Analysis_energy_cost (inject_Z period) 0 0 (Qdot prices agg))
          (get_tariffs TS start (Z.of_nat (List.length agg)) period).

Definition energy_cost_agg_q (TS : list sched) (start : Z) (period : Q) (agg : list Q) : res Q :=
  res_map (fun prices => Analysis_energy_cost period 0 0 (Qdot prices agg))
          (get_tariffs_q TS start (Z.of_nat (List.length agg)) period).

Definition demand_charge_agg (TS : list sched) (start : Z) (agg : list Q) : res Q :=
  res_bind (get_demand_charge TS start) (fun dc =>
  match agg with
  | [] => Err "ValueError:empty"
  | a :: r => Ok (Analysis_demand_charge dc 0 0 (Qmax_list a r))
  end).

Definition energy_cost (TS : list sched) (start period : Z) (voltages : list Q) (cols : list (list Q)) :=
  energy_cost_agg TS start period (aggregate_power voltages cols).
(* which tariff prices a simulation: the one passed explicitly, else signals["tariff"], else ValueError *)
Definition pricing_tariff (signal explicit : option (list sched)) : res (list sched) :=
  match explicit with
  | Some TS => Ok TS
  | None => match signal with Some TS => Ok TS | None => Err "ValueError:nopricing" end
  end.

Definition energy_cost_sim (signal explicit : option (list sched)) (start : Z) (period : Q)
           (voltages : list Q) (cols : list (list Q)) : res Q :=
  res_bind (pricing_tariff signal explicit) (fun TS =>
  energy_cost_agg_q TS start period (aggregate_power voltages cols)).

Definition demand_charge_sim (signal explicit : option (list sched)) (start : Z)
           (voltages : list Q) (cols : list (list Q)) : res Q :=
  res_bind (pricing_tariff signal explicit) (fun TS =>
  demand_charge_agg TS start (aggregate_power voltages cols)).

Definition energy_cost_q (TS : list sched) (start : Z) (period : Q) (voltages : list Q) (cols : list (list Q)) :=
  energy_cost_agg_q TS start period (aggregate_power voltages cols).
Definition demand_charge (TS : list sched) (start : Z) (voltages : list Q) (cols : list (list Q)) :=
  demand_charge_agg TS start (aggregate_power voltages cols).

(* ------------------------------------------------------------------ specification vocabulary *)
(* the season of a schedule as written in the file, wrap-around over the new year included *)
Definition season_contains (s : sched) (md : list Z) : bool :=
  if lex_ltb (s_end s) (s_start s)
  then lex_leb (s_start s) md || lex_leb md (s_end s)
  else lex_leb (s_start s) md && lex_leb md (s_end s).

(* the schedule (as written in the file) applies on (month m, day d, weekday wd) *)
Definition applies (s : sched) (m d wd : Z) : bool :=
  nth_bool (s_mask s) wd && season_contains s [m; d].

(* everything of a schedule except its effective dates *)
Definition payload (s : sched) : string * list bool * list (Q * Q) * Q :=
  (s_id s, s_mask s, s_tariffs s, s_demand s).

(* the one or two date ranges the constructor makes of a schedule *)
Definition pieces (s : sched) : list sched :=
  if wraps s then [set_end s [12; 31]%Z; set_start s [1; 1]%Z] else [s].

(* p is the rate of the latest breakpoint at or before th; if that breakpoint is listed more than once
   (never in the bundled files) the code returns the largest of its rates *)
Definition latest_breakpoint_rate (l : list (Q * Q)) (th p : Q) : Prop :=
  exists b, In (b, p) l /\ b <= th /\
            forall b' p', In (b', p') l -> b' <= th -> b' < b \/ (b' == b /\ p' <= p).

(* the terms price_k * power_k * dt of the energy cost *)
Fixpoint cost_terms (prices agg : list Q) (dt : Q) : list Q :=
  match prices, agg with
  | p :: ps, a :: r => p * a * dt :: cost_terms ps r dt
  | _, _ => []
  end.

(* first error wins, left to right *)
Fixpoint res_seq {A} (l : list (res A)) : res (list A) :=
  match l with
  | [] => Ok []
  | r :: rest => res_bind r (fun a => res_map (cons a) (res_seq rest))
  end.

Definition Zrange (n : Z) : list Z := map Z.of_nat (seq 0 (Z.to_nat n)).

(* wall-clock instant of simulation time index i *)
Definition sim_time (sim : simview) (i : Z) : Z :=
  (sim_start sim + i * (60000000 * sim_period sim))%Z.

(* ------------------------------------------------------------------ finite totality check *)
(* every (month, day) of the 366 calendar days (Feb 29 included) x every weekday has exactly one
   valid schedule *)
Definition exactly_one (TS : list sched) (m d wd : Z) : bool :=
  Nat.eqb (List.length (valid_schedules TS m d wd)) 1.

Definition months : list Z := [1; 2; 3; 4; 5; 6; 7; 8; 9; 10; 11; 12]%Z.
Definition weekdays : list Z := [0; 1; 2; 3; 4; 5; 6]%Z.
Definition days_upto (n : Z) : list Z := map Z.of_nat (seq 1 (Z.to_nat n)).

Definition calendar_cells : list (Z * Z * Z) :=
  flat_map (fun m => flat_map (fun d => map (fun wd => (m, d, wd)) weekdays)
                              (days_upto (max_days_in_month m))) months.

Definition failing_cells (TS : list sched) : list (Z * Z * Z) :=
  filter (fun c => let '(m, d, wd) := c in negb (exactly_one TS m d wd)) calendar_cells.

Definition file_total (raw : list raw_schedule) : bool :=
  match build raw with
  | Ok TS => forallb (fun c => let '(m, d, wd) := c in exactly_one TS m d wd) calendar_cells
  | Err _ => false
  end.

Definition all_files_total : bool := forallb (fun nr => file_total (snd nr)) bundled.

(* every cell of the finite check is the (month, day, weekday) of a real date: a year of the 28-year
   cycle 2000..2027 in which that date exists and falls on that weekday *)
Definition witness_years : list Z := map Z.of_nat (seq 2000 28).
Definition cell_year (c : Z * Z * Z) : option Z :=
  let '(m, d, wd) := c in
  find (fun y => valid_date y m d && Z.eqb (weekday (ordinal y m d)) wd) witness_years.
Definition all_cells_realised : bool :=
  forallb (fun c => match cell_year c with Some _ => true | None => false end) calendar_cells.

(* what the search evaluates when the check above is false: per file, the constructor error or the
   cells (month, day, weekday) with zero or several valid schedules, with that count *)
Definition file_failures (raw : list raw_schedule) : res (list (Z * Z * Z * nat)) :=
  res_map (fun TS => map (fun c => let '(m, d, wd) := c in (m, d, wd, List.length (valid_schedules TS m d wd)))
                        (failing_cells TS)) (build raw).
Definition all_failures := map (fun nr => (fst nr, file_failures (snd nr))) bundled.

(* ------------------------------------------------------------------ correspondence cases *)
Inductive tsrc :=
| Bundled (name : string)
| Inline (raw : list raw_schedule).

Fixpoint sassoc {A} (k : string) (l : list (string * A)) : option A :=
  match l with
  | [] => None
  | (k', v) :: r => if String.eqb k k' then Some v else sassoc k r
  end.

Definition load (src : tsrc) : res (list sched) :=
  match src with
  | Bundled n => match sassoc n bundled with Some raw => build raw | None => Err "FileNotFoundError" end
  | Inline raw => build raw
  end.

Definition Qeq_list := list_eqb Qeqb.

Definition sched_eqb (a b : sched) : bool :=
  String.eqb (s_id a) (s_id b) && list_eqb Z.eqb (s_start a) (s_start b)
  && list_eqb Z.eqb (s_end a) (s_end b) && list_eqb Bool.eqb (s_mask a) (s_mask b)
  && list_eqb (fun x y => Qeqb (fst x) (fst y) && Qeqb (snd x) (snd y)) (s_tariffs a) (s_tariffs b)
  && Qeqb (s_demand a) (s_demand b).

(* same schedules up to order (the order of TimeOfUseTariff._schedule is not observable through the API) *)
Definition count_eqb (x : sched) (l : list sched) : nat := List.length (filter (sched_eqb x) l).
Definition sched_set_eqb (a b : list sched) : bool :=
  Nat.eqb (List.length a) (List.length b) &&
  forallb (fun x => Nat.eqb (count_eqb x a) (count_eqb x b)) a.

Inductive c17case :=
| CFields (t : Z) (y m d wd h mi s : Z)                      (* datetime fields of an instant *)
| CCtor (src : tsrc) (expect : res (list sched))             (* TimeOfUseTariff(...)._schedule *)
| CTariff (src : tsrc) (t : Z) (expect : res Q)
| CTariffs (src : tsrc) (start length period : Z) (expect : res (list Q))
| CTariffsT (src : tsrc) (start length period : Z) (table : list Q) (idx : list nat)
    (* long vectors: expected prices given as indices into a table of the distinct values *)
| CDemand (src : tsrc) (t : Z) (expect : res Q)
| CPrices (src : option tsrc) (start period iteration length : Z) (st : option Z) (expect : res (list Q))
| CIfaceDemand (src : option tsrc) (start period iteration : Z) (st : option Z) (expect : res Q)
| CEnergy (src : tsrc) (start period : Z) (voltages : list Q) (cols : list (list Q)) (expect : res Q)
| CDemandCharge (src : tsrc) (start : Z) (voltages : list Q) (cols : list (list Q)) (expect : res Q)
(* fractional periods *)
| CTariffsQ (src : tsrc) (start length : Z) (period : Q) (expect : res (list Q))
| CPricesQ (src : option tsrc) (start : Z) (period : Q) (iteration length : Z) (st : option Z) (expect : res (list Q))
| CIfaceDemandQ (src : option tsrc) (start : Z) (period : Q) (iteration : Z) (st : option Z) (expect : res Q)
| CEnergyQ (src : tsrc) (start : Z) (period : Q) (voltages : list Q) (cols : list (list Q)) (expect : res Q)
(* cost functions with the simulator's signal tariff and the explicitly passed tariff given separately *)
| CEnergyP (signal explicit : option tsrc) (start : Z) (period : Q) (voltages : list Q) (cols : list (list Q))
           (expect : res Q)
| CDemandChargeP (signal explicit : option tsrc) (start : Z) (voltages : list Q) (cols : list (list Q))
                 (expect : res Q).

Definition load_opt (src : option tsrc) : res (option (list sched)) :=
  match src with None => Ok None | Some sr => res_map Some (load sr) end.

Definition with_tariff {A} (src : tsrc) (f : list sched -> res A) : res A :=
  match load src with Ok TS => f TS | Err e => Err ("ctor:" ++ e) end.

Definition mk_sim (src : option tsrc) (start period iteration : Z) : res simview :=
  match src with
  | None => Ok {| sim_start := start; sim_period := period; sim_iteration := iteration; sim_tariff := None |}
  | Some sr => res_map (fun TS => {| sim_start := start; sim_period := period; sim_iteration := iteration;
                                     sim_tariff := Some TS |}) (load sr)
  end.

Definition check_c17 (c : c17case) : bool :=
  match c with
  | CFields t y m d wd h mi s =>
      let n := ord_of (secs t) in
      Z.eqb (year_of n) y && Z.eqb (t_month t) m && Z.eqb (t_day t) d && Z.eqb (t_weekday t) wd
      && Z.eqb (t_hour t) h && Z.eqb (t_minute t) mi && Z.eqb (t_second t) s
  | CCtor src e => res_eqb sched_set_eqb (load src) e
  | CTariff src t e => res_eqb Qeqb (with_tariff src (fun TS => get_tariff TS t)) e
  | CTariffs src st n p e => res_eqb Qeq_list (with_tariff src (fun TS => get_tariffs TS st n p)) e
  | CTariffsT src st n p table idx =>
      res_eqb Qeq_list (with_tariff src (fun TS => get_tariffs TS st n p)) (Ok (map (fun i => nth i table 0) idx))
  | CDemand src t e => res_eqb Qeqb (with_tariff src (fun TS => get_demand_charge TS t)) e
  | CPrices src st p it n s e =>
      res_eqb Qeq_list (match mk_sim src st p it with Ok sim => iface_get_prices sim n s | Err x => Err ("ctor:" ++ x) end) e
  | CIfaceDemand src st p it s e =>
      res_eqb Qeqb (match mk_sim src st p it with Ok sim => iface_get_demand_charge sim s | Err x => Err ("ctor:" ++ x) end) e
  | CEnergy src st p v cols e => res_eqb Qclose (with_tariff src (fun TS => energy_cost TS st p v cols)) e
  | CDemandCharge src st v cols e => res_eqb Qclose (with_tariff src (fun TS => demand_charge TS st v cols)) e
  | CTariffsQ src st n p e => res_eqb Qeq_list (with_tariff src (fun TS => get_tariffs_q TS st n p)) e
  | CPricesQ src st p it n s e =>
      res_eqb Qeq_list (match load_opt src with Ok t => iface_get_prices_q t st p it n s | Err x => Err ("ctor:" ++ x) end) e
  | CIfaceDemandQ src st p it s e =>
      res_eqb Qeqb (match load_opt src with Ok t => iface_get_demand_charge_q t st p it s | Err x => Err ("ctor:" ++ x) end) e
  | CEnergyQ src st p v cols e => res_eqb Qclose (with_tariff src (fun TS => energy_cost_q TS st p v cols)) e
  | CEnergyP sg ex st p v cols e =>
      res_eqb Qclose (match load_opt sg, load_opt ex with
                      | Ok a, Ok b => energy_cost_sim a b st p v cols
                      | Err x, _ | _, Err x => Err ("ctor:" ++ x)
                      end) e
  | CDemandChargeP sg ex st v cols e =>
      res_eqb Qclose (match load_opt sg, load_opt ex with
                      | Ok a, Ok b => demand_charge_sim a b st v cols
                      | Err x, _ | _, Err x => Err ("ctor:" ++ x)
                      end) e
  end.
