(* Model/Sorted.v — executable (Q) model of algorithms/sorted_algorithms.py (SortedSchedulingAlgo,
   RoundRobin, the five sort functions), postprocessing.format_array_schedule and
   uncontrolled_charging.UncontrolledCharging.  Definitions only.

   The structural definitions take the feasibility check as a parameter `feasible : list Q -> bool`;
   the executable instance is Preproc.feasQ.  Scalar expressions are the generated ones
   (Gen/Sorted_Q.v): bounds, level filters, bisection body, np.arange arguments, sort keys. *)
From Coq Require Import ZArith QArith Qminmax Qabs Qround List Bool String.
From ACN Require Import Base.Num Base.ListX Gen.Sorted_Q Gen.SortedZ_Z Model.Preproc Model.FeasBig.
Import ListNotations.
Open Scope string_scope.
Open Scope Q_scope.

Inductive sortkind := FCFS | LCFS | EDF | LLF | LRPT.

Section Alg.
  Variable feasible : list Q -> bool.
  Variable inf : infra.
  Variable period : Q.
  Variable now : Z.               (* interface.current_time *)

  Definition rap (s : session) : Q := rap_iface inf period s.
  Definition max_pilot_signal (s : session) : Q := nthQ (i_maxp inf) (s_station s).

  (* ---- sort functions ---- *)
  Definition sort_key (k : sortkind) (s : session) : Q :=
    match k with
    | FCFS => Sort_fcfs_key (inject_Z (s_arr s)) 0 0
    | LCFS => Sort_lcfs_key (inject_Z (s_arr s)) 0 0
    | EDF => Sort_edf_key (inject_Z (s_edep s)) 0 0
    | LLF => Sort_laxity (inject_Z (s_edep s)) (inject_Z now) 0 (max_pilot_signal s) (rap s)
    | LRPT => Sort_rpt 0 (max_pilot_signal s) (rap s)
    end.
  Definition sort_reverse (k : sortkind) : bool :=
    match k with
    | LCFS => Sort_lcfs_reverse 0 0
    | LRPT => Sort_lrpt_reverse 0 0
    | _ => false
    end.
  Definition sort_sessions (k : sortkind) (ss : list session) : list session :=
    sort_by (sort_key k) (sort_reverse k) ss.

  (* ---- bounds used by the greedy loop ---- *)
  Definition g_init_lb (s : session) : Q := Greedy_init_lb (hd0 (s_min s)) 0 0.
  Definition g_lb (s : session) : Q := Greedy_lb (hd0 (s_min s)) 0 0.
  Definition g_ub (s : session) : Q := Greedy_ub (hd0 (s_max s)) 0 0 (rap s).
  Definition g_eps : Q := Greedy_eps 0 0.

  (* schedule = zeros(N); for session in queue: schedule[index] = lb *)
  Definition init_sched (lbf : session -> Q) (queue : list session) : list Q :=
    fold_left (fun sch s => upd (s_station s) (lbf s) sch) queue (repeat 0 (n_stations inf)).

  (* ---- max_feasible_rate: short-circuit at ub, else bisection on [lb, ub] ---- *)
  Fixpoint bisect (fuel : nat) (idx : nat) (sched : list Q) (eps lo hi : Q) : option Q :=
    match fuel with
    | O => None
    | S f =>
        let mid := Bisect_mid 0 lo hi 0 in
        if Bisect_stop eps 0 lo hi 0 then Some (Bisect_ret 0 lo hi 0)
        else if feasible (upd idx mid sched)
             then bisect f idx sched eps (Bisect_feas_lo mid 0 lo hi 0) (Bisect_feas_hi 0 lo hi 0)
             else bisect f idx sched eps (Bisect_infeas_lo 0 lo hi 0) (Bisect_infeas_hi mid 0 lo hi 0)
    end.

  (* enough fuel for every input with eps > 0 (C07_bisect_terminates) *)
  Definition bisect_fuel (eps lo hi : Q) : nat :=
    S (Z.to_nat (Z.log2_up (Qceiling ((hi - lo) / eps)))).

  Definition max_feasible_rate (idx : nat) (ub : Q) (sched : list Q) (eps lb : Q) : res Q :=
    if negb (feasible sched) then Err "ValueError"
    else if feasible (upd idx ub sched) then Ok ub
    else match bisect (bisect_fuel eps lb ub) idx sched eps lb ub with
         | Some r => Ok r
         | None => Err "RecursionError"
         end.

  (* ---- discrete_max_feasible_rate: walk down from the last level, fall back to 0 ---- *)
  Fixpoint walk_down (idx : nat) (sched : list Q) (rev_levels : list Q) : Q :=
    match rev_levels with
    | [] => 0
    | a :: r => if feasible (upd idx a sched) then a else walk_down idx sched r
    end.
  Definition discrete_max_feasible_rate (idx : nat) (allowable : list Q) (sched : list Q) : res Q :=
    if negb (feasible sched) then Err "ValueError" else Ok (walk_down idx sched (rev allowable)).

  Definition g_allowable (s : session) : list Q :=
    filter (fun a => Greedy_level_ok a (g_lb s) (g_ub s) 0 0) (nth (s_station s) (i_allow inf) []).

  (* one iteration of the allocation loop: the rate granted to s given the current schedule *)
  Definition greedy_rate (s : session) (sched : list Q) : res Q :=
    let i := s_station s in
    if nth i (i_cont inf) true
    then max_feasible_rate i (g_ub s) sched g_eps (g_lb s)
    else match g_allowable s with
         | [] => Ok 0
         | al => discrete_max_feasible_rate i al sched
         end.

  Fixpoint greedy_loop (queue : list session) (sched : list Q) : res (list Q) :=
    match queue with
    | [] => Ok sched
    | s :: q =>
        match greedy_rate s sched with
        | Err e => Err e
        | Ok r => greedy_loop q (upd (s_station s) r sched)
        end
    end.

  Definition sorting_algorithm (k : sortkind) (ss : list session) : res (list Q) :=
    let queue := sort_sessions k ss in
    let s0 := init_sched g_init_lb queue in
    if negb (feasible s0) then Err "ValueError" else greedy_loop queue s0.

  (* the same loop, also returning what each step saw: (session, schedule before, granted rate) *)
  Fixpoint greedy_trace (queue : list session) (sched : list Q) : list (session * list Q * Q) :=
    match queue with
    | [] => []
    | s :: q =>
        match greedy_rate s sched with
        | Err _ => []
        | Ok r => (s, sched, r) :: greedy_trace q (upd (s_station s) r sched)
        end
    end.

  (* ---- round robin ---- *)
  Variable inc : Q.              (* self.continuous_inc *)

  (* np.arange(start, stop, step): ceil((stop - start) / step) values start + k*step *)
  Definition arange (start stop step : Q) : list Q :=
    map (fun k => start + inject_Z (Z.of_nat k) * step)
        (seq 0 (Z.to_nat (Qceiling ((stop - start) / step)))).

  Definition rr_ub (s : session) : Q :=
    RR_ub (nthQ (i_maxp inf) (s_station s)) (hd0 (s_max s)) 0 0 (rap s).
  Definition rr_lb (s : session) : Q := RR_lb (hd0 (s_min s)) 0 0.

  (* the bound-filtered level list of a session's station *)
  Definition rr_levels_of (base : list Q) (s : session) : list Q :=
    let i := s_station s in
    let l0 := if nth i (i_cont inf) true
              then arange (RR_arange_start (hd0 (s_min s)) 0 0) (RR_arange_stop inc (hd0 (s_max s)) 0 0)
                          (RR_arange_step inc 0 0)
              else base in
    let l1 := filter (fun a => RR_keep_lb a (rr_lb s) 0 0) l0 in
    filter (fun a => RR_keep_ub a (rr_ub s) 0 0) l1.

  Definition rr_init_step (st : list (list Q) * list Q) (s : session) : list (list Q) * list Q :=
    let '(levels, sched) := st in
    let i := s_station s in
    let lv := rr_levels_of (nth i levels []) s in
    (upd i lv levels, upd i (match lv with [] => 0 | a :: _ => a end) sched).

  Definition rr_init (queue : list session) : list (list Q) * list Q :=
    fold_left rr_init_step queue (i_allow inf, repeat 0 (n_stations inf)).

  (* what happened to the session popped from the deque *)
  Inductive rr_event :=
  | Raised (i k : nat)                       (* level k -> k+1 accepted, session re-queued *)
  | Blocked (i k : nat) (tried : list Q)     (* schedule with level k+1 was infeasible: reverted, session leaves *)
  | AtTop (i k : nat).                       (* no level above k in its list: session leaves *)

  Fixpoint rr_loop (fuel : nat) (queue : list session) (sched : list Q) (ridx : list nat)
           (levels : list (list Q)) (log : list rr_event) : option (list Q * list rr_event) :=
    match fuel with
    | O => None
    | S f =>
        match queue with
        | [] => Some (sched, rev log)
        | s :: q =>
            let i := s_station s in
            let lv := nth i levels [] in
            let k := nth i ridx O in
            if RR_can_raise (Z.of_nat k) 0%Z 0%Z (Z.of_nat (List.length lv))
            then let sched1 := upd i (nth (S k) lv 0) sched in
                 if feasible sched1
                 then rr_loop f (q ++ [s]) sched1 (upd i (S k) ridx) levels (Raised i k :: log)
                 else rr_loop f q (upd i (nth k lv 0) sched1) ridx levels (Blocked i k sched1 :: log)
            else rr_loop f q sched ridx levels (AtTop i k :: log)
        end
    end.

  (* enough for every input (C07_rr_terminates): each iteration removes a session or raises one level *)
  Definition rr_fuel (queue : list session) (levels : list (list Q)) : nat :=
    S (List.length queue * S (fold_right (fun l n => (List.length l + n)%nat) O levels)).

  Definition round_robin_full (k : sortkind) (ss : list session) : res (list Q * list rr_event) :=
    let queue := sort_sessions k ss in
    let '(levels, s0) := rr_init queue in
    if negb (feasible s0) then Err "ValueError"
    else match rr_loop (rr_fuel queue levels) queue s0 (repeat O (n_stations inf)) levels [] with
         | Some r => Ok r
         | None => Err "OutOfFuel"
         end.
  Definition round_robin (k : sortkind) (ss : list session) : res (list Q) :=
    res_map fst (round_robin_full k ss).

  (* ---- UncontrolledCharging.schedule: {station_id: [max_pilot_signal(station_id)]} ---- *)
  Definition uncontrolled (ss : list session) : list (option Q) :=
    fold_left (fun out s => upd (s_station s) (Some (max_pilot_signal s)) out) ss
              (repeat None (n_stations inf)).
End Alg.

(* ------------------------------------------------------------------------------------------
   schedule(): infrastructure_info -> run_preprocessing -> algorithm -> format_array_schedule.
   format_array_schedule maps station k to [array[k]] for EVERY station, so the observable is the
   whole vector. *)
Record config := {
  c_rr : bool;                 (* RoundRobin (true) or SortedSchedulingAlgo (false) *)
  c_sort : sortkind;
  c_est : option ramp;         (* estimate_max_rate with a SimpleRampdown in this state *)
  c_unint : bool;              (* uninterrupted_charging *)
  c_inc : Q;                   (* continuous_inc *)
  c_period : Q;
  c_now : Z
}.

Record sched_out := {
  so_result : res (list Q);
  so_pre : list session;       (* output of run_preprocessing *)
  so_store : list (Z * Q);     (* estimator store after the call *)
  so_order : list session      (* queue = sort_fn(preprocessed sessions) *)
}.

Definition format_array_schedule (inf : infra) (v : list Q) : res (list Q) :=
  if Nat.eqb (n_stations inf) (List.length v) then Ok v else Err "InvalidScheduleError".

Definition schedule_with (feasible : list Q -> bool) (inf : infra) (cfg : config) (ss : list session) : sched_out :=
  let '(pre, store) := run_preprocessing feasible inf (c_period cfg) (c_est cfg) (c_unint cfg) ss in
  let r := if c_rr cfg
           then round_robin feasible inf (c_period cfg) (c_now cfg) (c_inc cfg) (c_sort cfg) pre
           else sorting_algorithm feasible inf (c_period cfg) (c_now cfg) (c_sort cfg) pre in
  {| so_result := res_bind r (format_array_schedule inf);
     so_pre := pre; so_store := store;
     so_order := sort_sessions inf (c_period cfg) (c_now cfg) (c_sort cfg) pre |}.

(* the phasor check of Preproc.v ... *)
Definition schedule (inf : infra) (cfg : config) (ss : list session) : sched_out :=
  schedule_with (feasQ inf) inf cfg ss.
(* ... and the instance that is executed: same check, BigQ arithmetic (Proofs/FeasBig.v: feas_big_correct) *)
Definition schedule_exec (inf : infra) (cfg : config) (ss : list session) : sched_out :=
  let rows := big_rows (prep_rows inf) in
  schedule_with (feas_big rows) inf cfg ss.

(* ------------------------------------------------------------------------------------------
   correspondence records *)
Record sortcase := {
  k_infra : infra; k_cfg : config; k_sessions : list session;
  (* recorded from the implementation *)
  o_err : option string;                   (* exception class name, if any *)
  o_sched : list Q;                        (* schedule[station k][0] for every station *)
  o_rows : list (list Q);                  (* the WHOLE emitted schedule: schedule[station k] for every station *)
  o_has_store : bool;                      (* false: the estimator is not a SimpleRampdown, no store to compare *)
  o_pre : list (Z * list Q * list Q);      (* run_preprocessing output: session id, min_rates, max_rates *)
  o_order : list Z;                        (* session ids in the order returned by the sort function *)
  o_store : list (Z * Q)                   (* estimator.upper_bounds after the call *)
}.

Definition Qlist_close (a b : list Q) : bool := list_eqb Qclose a b.

Fixpoint forall2b {A B} (f : A -> B -> bool) (l1 : list A) (l2 : list B) : bool :=
  match l1, l2 with
  | [], [] => true
  | a :: r1, b :: r2 => f a b && forall2b f r1 r2
  | _, _ => false
  end.

Definition pre_close (s : session) (o : Z * list Q * list Q) : bool :=
  let '(sid, mn, mx) := o in
  Z.eqb (s_id s) sid && Qlist_close (s_min s) mn && Qlist_close (s_max s) mx.

Definition store_close (m i : list (Z * Q)) : bool :=
  Nat.eqb (List.length m) (List.length i)
  && forallb (fun kv => match zassoc (fst kv) m with Some v => Qclose v (snd kv) | None => false end) i.

(* run_postprocessing = format_array_schedule: station k |-> [array[k]], exactly one period per station *)
Definition format_rows (v : list Q) : list (list Q) := map (fun x => [x]) v.

Definition result_close (r : res (list Q)) (err : option string) (sched : list Q) (rows : list (list Q)) : bool :=
  match r, err with
  | Ok v, None => Qlist_close v sched && forall2b Qlist_close (format_rows v) rows
  | Err e, Some e' => String.eqb e e'
  | _, _ => false
  end.

Definition check_sorted (c : sortcase) : bool :=
  let o := schedule_exec (k_infra c) (k_cfg c) (k_sessions c) in
  result_close (so_result o) (o_err c) (o_sched c) (o_rows c)
  && forall2b pre_close (so_pre o) (o_pre c)
  && list_eqb Z.eqb (map s_id (so_order o)) (o_order c)
  && (negb (o_has_store c) || store_close (so_store o) (o_store c)).

(* UncontrolledCharging *)
Record unccase := {
  u_infra : infra; u_sessions : list session;
  ou_sched : list (option Q)               (* None: station id absent from the returned dict *)
}.
Definition check_uncontrolled (c : unccase) : bool :=
  list_eqb (option_eqb Qclose) (uncontrolled (u_infra c) (u_sessions c)) (ou_sched c).

(* ------------------------------------------------------------------------------------------
   C08 correspondence: in addition to check_sorted, evaluate the maximality statement on the
   IMPLEMENTATION's recorded pilots with an independent computation: walking the queue with the recorded
   pilots of the sessions already served and the lower bounds of the waiting ones,
   - finite-rate station: the recorded pilot is the last (largest) level of [lb, ub] that passes the check, else 0;
   - continuous station: the recorded pilot passes the check and either reaches ub or pilot + eps fails it
     (with C08_feasible_interval this is optimality within eps). *)
Definition c08_slack : Q := 1 # 1000000.

Definition c08_step (feas : list Q -> bool) (inf : infra) (period : Q) (impl : list Q)
           (st : list Q * bool) (s : session) : list Q * bool :=
  let '(vec, ok) := st in
  let i := s_station s in
  let r := nth i impl 0 in
  let lb := g_lb s in
  let ub := g_ub inf period s in
  let good :=
    if nth i (i_cont inf) true
    then feas (upd i r vec)
         && (Qclose ub r || Qleb ub r || negb (feas (upd i (r + g_eps + c08_slack) vec)))
    else Qclose (last (filter (fun a => feas (upd i a vec)) (g_allowable inf period s)) 0) r in
  (upd i r vec, ok && good).

Definition c08_maximal (c : sortcase) : bool :=
  match o_err c with
  | Some _ => true
  | None =>
      if c_rr (k_cfg c) then true
      else
        let inf := k_infra c in
        let cfg := k_cfg c in
        let o := schedule_exec inf cfg (k_sessions c) in
        let feas := feas_big (big_rows (prep_rows inf)) in
        let q := so_order o in
        snd (fold_left (c08_step feas inf (c_period cfg) (o_sched c)) q (init_sched inf g_init_lb q, true))
  end.

Definition check_c08 (c : sortcase) : bool := check_sorted c && c08_maximal c.

(* ------------------------------------------------------------------------------------------
   direct calls of the public static methods SortedSchedulingAlgo.max_feasible_rate (any eps, any lb; the
   defaults eps = 0.0001 and lb = 0 are supplied by the harness) and discrete_max_feasible_rate *)
Record mfrcase := {
  m_infra : infra; m_idx : nat; m_sched : list Q; m_cont : bool; m_ub : Q; m_eps : Q; m_lb : Q; m_levels : list Q;
  om_err : option string; om_val : Q
}.
Definition check_mfr (c : mfrcase) : bool :=
  let feas := feas_big (big_rows (prep_rows (m_infra c))) in
  let r := if m_cont c
           then max_feasible_rate feas (m_idx c) (m_ub c) (m_sched c) (m_eps c) (m_lb c)
           else discrete_max_feasible_rate feas (m_idx c) (m_levels c) (m_sched c) in
  match r, om_err c with
  | Ok v, None => Qclose v (om_val c)
  | Err e, Some e' => String.eqb e e'
  | _, _ => false
  end.
