(* Model/Battery.v — executable (Q) twin of one battery object of any class, built on the
   generated kernels (Gen/Battery_Q.v, Gen/BatteryGuard_Q.v); exp is Num.qexp.
   Definitions only.  The R twin used by the theorems (Proofs/Battery.v: charge_call, run_calls,
   reset_state) has the same text over R. *)
From Coq Require Import ZArith QArith Qminmax Qabs List Bool String.
From ACN Require Import Base.Num Base.QExp Gen.Battery_Q Gen.BatteryGuard_Q.
Import ListNotations.
Open Scope Q_scope.

Inductive bkind :=
| Ideal
| TwoStage (noise_level transition_soc : Q) (mode : Z).   (* mode: 0 "continuous", 1 "stepwise", other: unknown string *)

Record battery := { b_kind : bkind; b_cap : Q; b_maxP : Q; b_init : Q }.
Record bstate := { s_charge : Q; s_power : Q }.

(* operations on a constructed battery; n1, n2 = what np.random.normal returns at the two call sites *)
Inductive bop :=
| Charge (pilot V T n1 n2 : Q)
| Reset (x : option Q)
| Roundtrip.            (* obj = cls.from_json(obj.to_json()) or obj = copy.deepcopy(obj) (directly, through an EV or a list
                           of EVs): hand-modelled as the identity on the object's state and parameters *)

Record bres := { r_err : option string; r_rate : Q; r_state : bstate }.

(* constructor outcome: None = constructed.  Battery.__init__ guard, then (two-stage) the two
   transition_soc guards, then the charge_calculation membership test (hand-written: mode in {0,1}) *)
Definition construct (b : battery) : option string :=
  match errS (Battery_init 0 0 0 0 0 (b_cap b) (b_init b) (b_maxP b)) with
  | Some e => Some e
  | None =>
      match b_kind b with
      | Ideal => None
      | TwoStage nl ts mode =>
          if L2_init_ts_negative (b_cap b) (b_init b) (b_maxP b) nl ts 0 then Some "ValueError"%string
          else if L2_init_ts_ge_one (b_cap b) (b_init b) (b_maxP b) nl ts 0 then Some "ValueError"%string
          else if (Z.eqb mode 0 || Z.eqb mode 1)%bool then None else Some "ValueError"%string
      end
  end.

Definition initial_state (b : battery) : bstate :=
  let o := stateS (Battery_init 0 0 0 0 0 (b_cap b) (b_init b) (b_maxP b)) in
  {| s_charge := Battery_init__current_charge o; s_power := Battery_init__current_charging_power o |}.

Definition charge_call (b : battery) (st : bstate) (pilot V T n1 n2 : Q) : bres :=
  let cap := b_cap b in let maxP := b_maxP b in
  let c := s_charge st in let p0 := s_power st in
  match b_kind b with
  | Ideal =>
      let r := Battery_charge cap c p0 maxP pilot V T in
      {| r_err := errS r; r_rate := Battery_charge_ret (stateS r);
         r_state := {| s_charge := Battery_charge__current_charge (stateS r);
                       s_power := Battery_charge__current_charging_power (stateS r) |} |}
  | TwoStage nl ts mode =>
      match L2_dispatch mode pilot V T 0 1 with
      | Ok tag =>
          if Qeqb tag 0 then
            let r := L2_charge cap c p0 maxP nl ts pilot V T n1 in
            {| r_err := errS r; r_rate := L2_charge_ret (stateS r);
               r_state := {| s_charge := L2_charge__current_charge (stateS r);
                             s_power := L2_charge__current_charging_power (stateS r) |} |}
          else
            let r := L2_charge_stepwise cap c p0 maxP nl ts pilot V T n1 n2 in
            {| r_err := errS r; r_rate := L2_charge_stepwise_ret (stateS r);
               r_state := {| s_charge := L2_charge_stepwise__current_charge (stateS r);
                             s_power := L2_charge_stepwise__current_charging_power (stateS r) |} |}
      | Err e => {| r_err := Some e; r_rate := 0; r_state := st |}
      end
  end.

Definition reset_call (b : battery) (st : bstate) (x : option Q) : bres :=
  let r := Battery_reset (b_cap b) (s_charge st) (s_power st) (b_init b) x in
  {| r_err := errS r; r_rate := 0;
     r_state := {| s_charge := Battery_reset__current_charge (stateS r);
                   s_power := Battery_reset__current_charging_power (stateS r) |} |}.

Definition apply_op (b : battery) (st : bstate) (o : bop) : bres :=
  match o with
  | Charge pilot V T n1 n2 => charge_call b st pilot V T n1 n2
  | Reset x => reset_call b st x
  | Roundtrip => {| r_err := None; r_rate := 0; r_state := st |}
  end.

(* Q arithmetic does not reduce fractions; the state is put in lowest terms between operations
   (Qred x == x) so that numerators/denominators do not grow along a sequence *)
Definition norm_res (r : bres) : bres :=
  {| r_err := r_err r; r_rate := Qred (r_rate r);
     r_state := {| s_charge := Qred (s_charge (r_state r)); s_power := Qred (s_power (r_state r)) |} |}.

Fixpoint run_ops (b : battery) (st : bstate) (ops : list bop) : list bres :=
  match ops with
  | [] => []
  | o :: rest => let r := norm_res (apply_op b st o) in r :: run_ops b (r_state r) rest
  end.

(* ---- correspondence case (C03 and C14 share it) ---- *)
(* recorded from the implementation after each operation:
   (exception class or None, returned rate (0 for reset / exception), _current_charge, _current_charging_power) *)
Record obs := { i_err : option string; i_rate : Q; i_charge : Q; i_power : Q }.

(* charge_calculation reassigned after construction (the attribute is public; from_dict does it) *)
Definition set_mode (b : battery) (m : option Z) : battery :=
  match m, b_kind b with
  | Some m', TwoStage nl ts _ => {| b_kind := TwoStage nl ts m'; b_cap := b_cap b; b_maxP := b_maxP b; b_init := b_init b |}
  | _, _ => b
  end.

Record battcase := {
  c_batt : battery;
  c_force_mode : option Z;
  c_ops : list bop;
  c_ctor_err : option string;      (* exception class raised by the constructor, if any *)
  c_obs : list obs
}.

Definition ostr_eqb := option_eqb String.eqb.

Definition obs_ok (m : bres) (i : obs) : bool :=
  ostr_eqb (r_err m) (i_err i)
  && Qclose (r_rate m) (i_rate i)
  && Qclose (s_charge (r_state m)) (i_charge i)
  && Qclose (s_power (r_state m)) (i_power i).

Fixpoint all2 {A B} (f : A -> B -> bool) (l : list A) (l' : list B) : bool :=
  match l, l' with
  | [], [] => true
  | x :: r, y :: r' => f x y && all2 f r r'
  | _, _ => false
  end.

Definition check_batt (c : battcase) : bool :=
  ostr_eqb (construct (c_batt c)) (c_ctor_err c)
  && match c_ctor_err c with
     | Some _ => match c_obs c with [] => true | _ => false end
     | None => all2 obs_ok (run_ops (set_mode (c_batt c) (c_force_mode c)) (initial_state (c_batt c)) (c_ops c)) (c_obs c)
     end.

(* ---- qexp validation stream: (x, math.exp(x)) ---- *)
(* the generated two-stage kernel calls QExp.qexp_fast, which is Num.qexp (QExp.qexp_fast_eq) *)
Definition check_qexp (c : Q * Q) : bool := Qclose_tol (1 # 1000000000000) (qexp_fast (fst c)) (snd c).

(* ---- C14: numerical integration of the documented law, as a model-validation aid ----
   (x, y) = (model charge after the call is computed by run_ops; the harness passes the RK4
   value of the ODE and the tolerance) *)
Record lawcase := { l_batt : battery; l_charge : Q; l_pilot : Q; l_V : Q; l_T : Q; l_ode_charge : Q; l_tol : Q }.
Definition check_law (c : lawcase) : bool :=
  let r := charge_call (l_batt c) {| s_charge := l_charge c; s_power := 0 |} (l_pilot c) (l_V c) (l_T c) 0 0 in
  match r_err r with
  | Some _ => false
  | None => Qclose_tol (l_tol c) (s_charge (r_state r)) (l_ode_charge c)
  end.
