(* Model/AnalysisQc.v — the analysis model over CANONICAL rationals (Qc), the instance of the axiom-free
   C18 theorems (`_rational`) and the one the correspondence check runs.  The scalar kernels are the
   expressions regenerated from analysis/__init__.py over Q, applied to the underlying fractions.
   `osqrt` of this instance is the 2^-60 integer square root (the theorems hold for any osqrt).
   Definitions only. *)
From Coq Require Import ZArith QArith Qcanon Qminmax Qabs Qround List Bool.
From ACN Require Import Base.Num Base.ListX Gen.Analysis_Q Gen.Battery_Q Model.Ledger Model.LedgerQ Model.LedgerQc
                        Model.Analysis Model.AnalysisQ.
Import ListNotations.

Definition QcA : akern Qc :=
  {| a_power_scale := fun d => Q2Qc (An_power_scale (this d));
     a_abs_applied := An_abs_applied;
     a_proportion := fun a b => Q2Qc (An_proportion (this a) (this b));
     a_remaining := fun del req => Q2Qc (EV_remaining_demand (this del) (this req));
     a_demand_met := fun r t => An_demand_met (this r) (this t);
     a_demands_ratio := fun a b => Q2Qc (An_demands_ratio (this a) (this b));
     a_nema := fun m m2 mx => Q2Qc (An_nema (this m) (this m2) (this mx));
     a_minutes := fun i p => Q2Qc (An_minutes (this i) (this p));
     a_energy_cost := fun t d => Q2Qc (An_energy_cost (this t) (this d));
     a_demand_charge := fun dc m => Q2Qc (An_demand_charge (this dc) (this m)) |}.

Definition traj_in (t : traj (F:=Q)) : traj (F:=Qc) :=
  mk_traj (t_width t) (map (map Q2Qc) (t_rates t)) (map Q2Qc (t_volts t))
          (map (fun p => (Q2Qc (fst p), Q2Qc (snd p))) (t_phasor t)) (t_cindex t)
          (map (map Q2Qc) (t_cmat t)) (map (fun p => (Q2Qc (fst p), Q2Qc (snd p))) (t_evh t))
          (t_iter t) (Q2Qc (t_period t)) (t_cmat_present t).

Definition series_out (s : series (F:=Qc)) : series (F:=Q) :=
  match s with Mag m => Mag (map this m) | Cplx re im => Cplx (map this re) (map this im) end.
Definition othis (o : option Qc) : option Q := option_map this o.

(* same comparisons as Model/AnalysisQ.check_c18, the model that is run is the Qc instance *)
Definition check_c18_qc (c : c18case) : bool :=
  let tr := traj_in (c_traj c) in
  Qlist_close (map this (aggregate_current QcO tr)) (i_agg_current c)
  && Qlist_close (map this (aggregate_power QcO QcA tr)) (i_agg_power c)
  && forallb (fun r => let '(flag, ids, out) := r in
                option_eqb dict_close
                  (option_map (map (fun kv => (fst kv, series_out (snd kv)))) (constraint_currents_call QcO QcA tr flag ids))
                  out) (i_cc c)
  && Qclose (this (total_energy_requested QcO tr)) (i_requested c)
  && Qclose (this (total_energy_delivered QcO tr)) (i_delivered c)
  && oQ_close (othis (proportion_of_energy_delivered QcO QcA tr)) (i_proportion c)
  && forallb (fun r => oQ_close (othis (proportion_of_demands_met QcO QcA tr (Q2Qc (fst r)))) (snd r)) (i_met c)
  && forallb (fun r => option_eqb (list_eqb oQ_close)
                         (option_map (map othis) (current_unbalance_call QcO QcA tr (fst r))) (snd r)) (i_nema c)
  && Qlist_close (map this (datetimes_minutes QcO QcA tr)) (i_minutes c)
  && forallb (fun r => let '(prices, dc, ec, dch) := r in
                Qclose (this (energy_cost QcO QcA tr (map Q2Qc prices))) ec
                && oQ_close (othis (demand_charge QcO QcA tr (Q2Qc dc))) (Some dch)) (i_costs c)
  (* the SPEC evaluated by the model against the implementation-shaped model (both in Coq) *)
  && Qlist_close (map (fun t => this (aggregate_current_spec QcO tr t)) (periods tr)) (map this (aggregate_current QcO tr))
  && Qlist_close (map (fun t => this (aggregate_power_spec QcO tr t)) (periods tr)) (map this (aggregate_power QcO QcA tr)).
