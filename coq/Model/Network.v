(* Model/Network.v — the constraint bookkeeping of acnportal/acnsim/network/charging_network.py
   (ChargingNetwork.register_evse / constraints_as_df / add_constraint / remove_constraint /
   update_constraint / constraint_current), statement by statement.

   Definitions only.  Polymorphic in the coefficient type A; the network itself only ever needs the
   constant 0 (`fillna(0)`, `constraint_frame_[col] = 0`); constraint_current additionally uses
   +, * and abs.  A matrix entry is `option A`: `None` is NaN (what pandas produces for a missing
   cell) — the model can therefore *represent* a hole in the matrix, and Proofs/Network.v shows that
   none ever appears.

   pandas pieces (DataFrame construction, to_frame().T, concat, fillna, column assignment,
   reindex(columns=), to_numpy, np.delete, list.remove) are modelled by a small frame type with
   exactly the operations used; they are validated by the correspondence run only (DESIGN §5).
   The installed pandas is > "1.4.0" (string comparison in the code), so the `concat` branch of
   add_constraint is the one modelled; the harness asserts that on every run. *)
From Coq Require Import List Bool Arith ZArith QArith Qabs String DecimalString.
From ACN Require Import Base.Num Base.ListX Gen.C12Shape Model.Current.
Import ListNotations.
Open Scope nat_scope.

Definition nmem (x : string) (l : list string) : bool := existsb (String.eqb x) l.

(* "_const_{0}".format(n) *)
Definition default_name (n : nat) : string :=
  String.append default_name_prefix (NilZero.string_of_uint (Nat.to_uint n)).

(* the name under which add_constraint files a new constraint *)
Definition resolve_name (existing : list string) (name : option string) : string :=
  let nm := match name with None => default_name (List.length existing) | Some x => x end in
  if nmem nm existing then String.append nm rename_suffix else nm.

(* list.index(x) for x in the list / np.delete(a, i, axis=0) / list.remove(x) *)
Fixpoint index_of (x : string) (l : list string) : nat :=
  match l with
  | [] => 0
  | y :: r => if String.eqb x y then 0 else S (index_of x r)
  end.

Fixpoint delete_nth {B} (i : nat) (l : list B) : list B :=
  match l, i with
  | [], _ => []
  | _ :: r, O => r
  | y :: r, S i' => y :: delete_nth i' r
  end.

Fixpoint remove_first (x : string) (l : list string) : list string :=
  match l with
  | [] => []
  | y :: r => if String.eqb x y then r else y :: remove_first x r
  end.

Section Net.
  Context {A : Type}.
  Variable zero : A.

  Record net := mkNet {
    stations : list station;                 (* list(self._EVSEs.keys()) — dict insertion order *)
    volts    : list Q;                       (* self._voltages *)
    angles   : list Q;                       (* self._phase_angles *)
    cmat     : option (list (list (option A)));   (* self.constraint_matrix; None = Python None *)
    mags     : list Q;                       (* self.magnitudes *)
    cnames   : list string                   (* self.constraint_index *)
  }.

  Definition net0 : net := mkNet [] [] [] None [] [].

  (* ---------------- a DataFrame with just what the code needs ---------------- *)
  Record frame := mkFrame {
    f_cols : list station;
    f_idx  : list string;
    f_rows : list (list (option A))
  }.

  Fixpoint col_pos (s : station) (cols : list station) : option nat :=
    match cols with
    | [] => None
    | c :: r => if Nat.eqb s c then Some 0
                else match col_pos s r with Some i => Some (S i) | None => None end
    end.

  (* value of column s in a row laid out along cols; NaN when the frame has no such column *)
  Definition cell (cols : list station) (row : list (option A)) (s : station) : option A :=
    match col_pos s cols with Some i => nth i row None | None => None end.

  Definition reindex_cols (fr : frame) (cols : list station) : frame :=
    mkFrame cols (f_idx fr) (map (fun row => map (cell (f_cols fr) row) cols) (f_rows fr)).

  (* pd.concat([f1, f2]): outer join of the columns in order of appearance, rows stacked *)
  Definition concat (f1 f2 : frame) : frame :=
    let cols := f_cols f1 ++ filter (fun c => negb (smem c (f_cols f1))) (f_cols f2) in
    mkFrame cols (f_idx f1 ++ f_idx f2)
            (f_rows (reindex_cols f1 cols) ++ f_rows (reindex_cols f2 cols)).

  Definition fillna0 (fr : frame) : frame :=
    mkFrame (f_cols fr) (f_idx fr)
            (map (map (fun x => match x with None => Some zero | Some v => Some v end)) (f_rows fr)).

  (* current.to_frame().T after `current.name = name` *)
  Definition to_frame_T (name : string) (c : current A) : frame :=
    mkFrame (keys c) [name] [map (fun p => Some (snd p)) c].

  (* frame[col] = 0 for a column the frame does not have yet *)
  Definition add_col0 (fr : frame) (col : station) : frame :=
    mkFrame (f_cols fr ++ [col]) (f_idx fr) (map (fun r => r ++ [Some zero]) (f_rows fr)).

  (* pd.DataFrame(self.constraint_matrix, columns=self.station_ids, index=self.constraint_index) *)
  Definition constraints_as_df (n : net) : frame :=
    mkFrame (stations n) (cnames n) (match cmat n with None => [] | Some m => m end).

  (* ---------------- register_evse ----------------
     A repeated station id keeps its position in the dict.  Since 76013ed its voltage / phase angle are
     overwritten at that index (`reregistration_overwrites`, read from the source by tools/gen_c12.py); before,
     a second entry was appended to both arrays, which then no longer matched station_ids. *)
  Definition register_evse (s : station) (v ph : Q) (n : net) : option string * net :=
    match cmat n with
    | Some _ => (Some exc_register, n)
    | None =>
        match col_pos s (stations n) with
        | Some i =>
            if reregistration_overwrites
            then (None, mkNet (stations n) (upd i v (volts n)) (upd i ph (angles n)) (cmat n) (mags n) (cnames n))
            else (None, mkNet (stations n) (volts n ++ [v]) (angles n ++ [ph]) (cmat n) (mags n) (cnames n))
        | None =>
            (None, mkNet (stations n ++ [s]) (volts n ++ [v]) (angles n ++ [ph]) (cmat n) (mags n) (cnames n))
        end
    end.

  (* ---------------- add_constraint ---------------- *)
  Definition add_constraint (c : current A) (limit : Q) (name : option string) (n : net)
    : option string * net :=
    let nm := resolve_name (cnames n) name in
    if existsb (fun k => negb (smem k (stations n))) (keys c) then (Some exc_unknown_station, n)
    else
      let mags' := mags n ++ [limit] in
      let fr := constraints_as_df n in
      let fr' :=
        if Nat.eqb (List.length (f_idx fr)) 0 then
          fold_left (fun f col => if smem col (f_cols f) then f else add_col0 f col)
                    (f_cols fr) (to_frame_T nm c)
        else fillna0 (concat fr (to_frame_T nm c)) in
      (None, mkNet (stations n) (volts n) (angles n)
                   (Some (f_rows (reindex_cols fr' (stations n)))) mags' (f_idx fr')).

  (* ---------------- remove_constraint ---------------- *)
  Definition remove_constraint (name : string) (n : net) : option string * net :=
    if negb (nmem name (cnames n)) then (Some exc_remove_missing, n)
    else
      let i := index_of name (cnames n) in
      (None, mkNet (stations n) (volts n) (angles n)
                   (match cmat n with None => None | Some m => Some (delete_nth i m) end)
                   (delete_nth i (mags n)) (remove_first name (cnames n))).

  (* ---------------- update_constraint ---------------- *)
  Definition update_constraint (name : string) (c : current A) (limit : Q)
             (new_name : option string) (n : net) : option string * net :=
    let nn := match new_name with None => name | Some x => x end in
    if negb (nmem name (cnames n)) then (Some exc_update_missing, n)
    else
      let n1 := snd (remove_constraint name n) in
      add_constraint c limit (Some nn) n1.

  (* ---------------- constraint_current(..., linear=True) ---------------- *)
  Variables (add mul : A -> A -> A) (absf : A -> A).

  (* a 2-D ndarray: width and rows (every row has that width) *)
  Record sched := mkSched { xw : nat; xrows : list (list A) }.

  Definition omap2 (f : A -> A -> A) (x y : option A) : option A :=
    match x, y with Some a, Some b => Some (f a b) | _, _ => None end.

  (* sum_k |row_k| * col_k ; NaN is absorbing *)
  Fixpoint dot (row : list (option A)) (col : list A) : option A :=
    match row, col with
    | m :: r, x :: c => omap2 add (omap2 mul (option_map absf m) (Some x)) (dot r c)
    | _, _ => Some zero
    end.

  (* numpy integer indexing along an axis of List.length w: negative indices count from the end *)
  Definition norm_index (w : nat) (t : Z) : option nat :=
    if (0 <=? t)%Z then (if (t <? Z.of_nat w)%Z then Some (Z.to_nat t) else None)
    else (if (- Z.of_nat w <=? t)%Z then Some (Z.to_nat (t + Z.of_nat w)) else None).

  Fixpoint norm_indices (w : nat) (ts : list Z) : option (list nat) :=
    match ts with
    | [] => Some []
    | t :: r => match norm_index w t, norm_indices w r with
                | Some i, Some l => Some (i :: l)
                | _, _ => None
                end
    end.

  (* schedule_matrix[:, time_indices] *)
  Definition take_cols (X : sched) (js : list nat) : sched :=
    mkSched (List.length js) (map (fun row => map (fun j => nth j row zero) js) (xrows X)).

  (* [i for i in range(len(constraint_index)) if constraint_index[i] in constraints] *)
  Fixpoint positions_from (i : nat) (C : list string) (names : list string) : list nat :=
    match names with
    | [] => []
    | x :: r => if nmem x C then i :: positions_from (S i) C r else positions_from (S i) C r
    end.
  Definition constraint_indices (C : option (list string)) (names : list string) : list nat :=
    match C with
    | None => seq 0 (List.length names)
    | Some l => positions_from 0 l names
    end.

  Definition column (X : sched) (j : nat) : list A := map (fun row => nth j row zero) (xrows X).

  (* np.abs(M) @ X for a k x n matrix M and an n x w array X *)
  Definition matmul_abs (M : list (list (option A))) (X : sched) : list (list (option A)) :=
    map (fun row => map (fun j => dot row (column X j)) (seq 0 (xw X))) M.

  Definition constraint_current (X : sched) (C : option (list string)) (T : option (list Z))
             (n : net) : res (list (list (option A))) :=
    let idx := constraint_indices C (cnames n) in
    match (match T with
           | None => Some X
           | Some ts => match norm_indices (xw X) ts with
                        | Some js => Some (take_cols X js)
                        | None => None
                        end
           end) with
    | None => Err "IndexError"%string
    | Some X' =>
        match cmat n with
        | None => Err "TypeError"%string
        | Some m =>
            if negb (Nat.eqb (List.length (xrows X')) (List.length (stations n))) then Err "ValueError"%string
            else Ok (matmul_abs (map (fun i => nth i m []) idx) X')
        end
    end.

  (* ---------------- constraint_current(..., linear=False), the default ----------------
     angle_coeffs = exp(1j * deg2rad(self._phase_angles));  phasor = (X'.T * angle_coeffs).T;
     return self.constraint_matrix[idx] @ phasor.
     cos/sin of the registered angles are inputs (`trig`, one pair per entry of _phase_angles, computed by the
     harness independently); the answer is the pair (real parts, imaginary parts).
     numpy broadcasting of the (w x r) array X'.T with the length-a vector: fine when r = a; when r = 1 the single
     row is repeated a times; when a = 1 the single coefficient multiplies every row; otherwise ValueError.
     Statement order: phasor (ValueError) is computed before the matrix is subscripted (TypeError when None). *)
  Definition bcast (X' : sched) (a : nat) : option sched :=
    let r := List.length (xrows X') in
    if Nat.eqb r a then Some X'
    else if Nat.eqb r 1 then Some (mkSched (xw X') (repeat (hd [] (xrows X')) a))
    else if Nat.eqb a 1 then Some X'
    else None.

  Definition bweights (r a : nat) (trig : list (A * A)) : list (A * A) :=
    if Nat.eqb a 1 && negb (Nat.eqb r 1) then repeat (nth 0 trig (zero, zero)) r else trig.

  (* sum_k row_k * (col_k * w_k) ; NaN is absorbing *)
  Fixpoint dotw (row : list (option A)) (col w : list A) : option A :=
    match row, col, w with
    | m :: r, x :: c, u :: w' => omap2 add (omap2 mul m (Some (mul x u))) (dotw r c w')
    | _, _, _ => Some zero
    end.

  Definition matmul_w (M : list (list (option A))) (Y : sched) (w : list A) : list (list (option A)) :=
    map (fun row => map (fun j => dotw row (column Y j) w) (seq 0 (xw Y))) M.

  Definition constraint_current_phase (X : sched) (C : option (list string)) (T : option (list Z))
             (trig : list (A * A)) (n : net)
    : res (list (list (option A)) * list (list (option A))) :=
    let idx := constraint_indices C (cnames n) in
    match (match T with
           | None => Some X
           | Some ts => match norm_indices (xw X) ts with
                        | Some js => Some (take_cols X js)
                        | None => None
                        end
           end) with
    | None => Err "IndexError"%string
    | Some X' =>
        let a := List.length (angles n) in
        match bcast X' a with
        | None => Err "ValueError"%string
        | Some Y =>
            let w := bweights (List.length (xrows X')) a trig in
            match cmat n with
            | None => Err "TypeError"%string
            | Some m =>
                if negb (Nat.eqb (List.length (xrows Y)) (List.length (stations n))) then Err "ValueError"%string
                else let M := map (fun i => nth i m []) idx in
                     Ok (matmul_w M Y (map fst w), matmul_w M Y (map snd w))
            end
        end
    end.

  (* ---------------- operation sequences ---------------- *)
  Inductive op : Type :=
  | ORegister (s : station) (v ph : Q)
  | OAdd (c : current A) (limit : Q) (name : option string)
  | ORemove (name : string)
  | OUpdate (name : string) (c : current A) (limit : Q) (new_name : option string).

  Definition step (o : op) (n : net) : option string * net :=
    match o with
    | ORegister s v ph => register_evse s v ph n
    | OAdd c l nm => add_constraint c l nm n
    | ORemove nm => remove_constraint nm n
    | OUpdate nm c l nn => update_constraint nm c l nn n
    end.

  (* the state after a whole sequence; an operation that raises leaves whatever state the code
     leaves (update_constraint: the old constraint is already gone when add_constraint raises) *)
  Definition run (ops : list op) (n : net) : net :=
    fold_left (fun st o => snd (step o st)) ops n.

  (* ---------------- the specification side: the list of live constraints ----------------
     Book-keeping a reader would do on paper: which stations exist, whether a constraint was ever
     accepted, and the live constraints (name, current, limit) in the order the network lists them. *)
  Record live := mkLive { l_name : string; l_cur : current A; l_limit : Q }.

  Record ghost := mkGhost {
    g_stations : list station;
    g_ever : bool;
    g_live : list live
  }.
  Definition ghost0 : ghost := mkGhost [] false [].

  Definition known (sts : list station) (c : current A) : bool :=
    forallb (fun k => smem k sts) (keys c).

  Fixpoint remove_live (x : string) (l : list live) : list live :=
    match l with
    | [] => []
    | y :: r => if String.eqb x (l_name y) then r else y :: remove_live x r
    end.

  Definition gstep (o : op) (g : ghost) : ghost :=
    let names := map l_name (g_live g) in
    match o with
    | ORegister s _ _ =>
        if g_ever g then g
        else mkGhost (if smem s (g_stations g) then g_stations g else g_stations g ++ [s]) false (g_live g)
    | OAdd c l nm =>
        if known (g_stations g) c
        then mkGhost (g_stations g) true (g_live g ++ [mkLive (resolve_name names nm) c l])
        else g
    | ORemove nm => mkGhost (g_stations g) (g_ever g) (remove_live nm (g_live g))
    | OUpdate nm c l nn =>
        if nmem nm names then
          let rest := remove_live nm (g_live g) in
          let nn' := match nn with None => nm | Some x => x end in
          if known (g_stations g) c
          then mkGhost (g_stations g) true
                       (rest ++ [mkLive (resolve_name (map l_name rest) (Some nn')) c l])
          else mkGhost (g_stations g) (g_ever g) rest
        else g
    end.

  Definition grun (ops : list op) (g : ghost) : ghost := fold_left (fun st o => gstep o st) ops g.

  (* row of the matrix that a constraint on current c must occupy, for the given station order *)
  Definition row_of (sts : list station) (c : current A) : list (option A) :=
    map (fun s => Some (coeff zero c s)) sts.

  (* ---------------- JSON round trip: ChargingNetwork.from_json(net.to_json()) ----------------
     _to_dict stores every array as a nested list and _from_dict rebuilds np.array(list); station order (a JSON
     object keeps key order), voltages, angles, limits, names and a matrix with at least one row come back as they
     were.  A matrix WITHOUT rows (every constraint removed: shape (0, n)) is serialised as [] and comes back with
     shape (0,) when `lossy` (the code before d5bb06b; since then _from_dict reshapes to (constraints, stations)).
     Which one applies is read from the source (Gen/C12Shape.v) and probed on the implementation on every run.  The reloaded network is then degenerate
     (`jdeg`): pd.DataFrame(matrix, columns=station_ids) raises ValueError for n <> 1 stations, so
     constraints_as_df and hence add_constraint raise — add_constraint AFTER it appended the limit to magnitudes —
     and every constraint_current raises ValueError (matmul of a (0,) array with the schedule). *)
  Record jnet := mkJ { jn : net; jdeg : bool }.

  Definition json_reload (lossy : bool) (j : jnet) : jnet :=
    mkJ (jn j) (jdeg j || (lossy && match cmat (jn j) with Some [] => true | _ => false end)).

  (* what the tree under test does (tools/gen_c12.py reads _from_dict: reshape to (constraints, stations) or not) *)
  Definition repo_json_lossy : bool := negb json_keeps_matrix_shape.

  Definition jstep (o : op) (j : jnet) : option string * jnet :=
    let n := jn j in
    if jdeg j && negb (Nat.eqb (List.length (stations n)) 1) then
      match o with
      | ORegister _ _ _ => (Some exc_register, j)
      | OAdd c l _ =>
          if known (stations n) c
          then (Some "ValueError"%string,
                mkJ (mkNet (stations n) (volts n) (angles n) (cmat n) (mags n ++ [l]) (cnames n)) true)
          else (Some exc_unknown_station, j)
      | ORemove nm => (fst (remove_constraint nm n), j)
      | OUpdate nm _ _ _ => (if nmem nm (cnames n) then Some "ValueError"%string else Some exc_update_missing, j)
      end
    else let r := step o n in
         (fst r, mkJ (snd r) (jdeg j && match cmat (snd r) with Some [] => true | _ => false end)).

  (* ---------------- vocabulary of the theorems ---------------- *)
  (* error outcome of an operation, read off the book-keeping *)
  Definition spec_err (o : op) (g : ghost) : option string :=
    let names := map l_name (g_live g) in
    match o with
    | ORegister _ _ _ => if g_ever g then Some exc_register else None
    | OAdd c _ _ => if known (g_stations g) c then None else Some exc_unknown_station
    | ORemove nm => if nmem nm names then None else Some exc_remove_missing
    | OUpdate nm c _ _ =>
        if nmem nm names then (if known (g_stations g) c then None else Some exc_unknown_station)
        else Some exc_update_missing
    end.

  (* two Currents that list the same stations with the same values, in any order *)
  Definition cur_equiv (c c' : current A) : Prop := forall s, lookup s c = lookup s c'.

  Definition is_constraint_op (o : op) : bool :=
    match o with OAdd _ _ _ | OUpdate _ _ _ _ => true | _ => false end.

  Definition reg_op (p : station * Q * Q) : op := ORegister (fst (fst p)) (snd (fst p)) (snd p).
  (* voltage and angle given at the LAST registration of station s in a list of registrations *)
  Fixpoint last_reg (regs : list (station * Q * Q)) (s : station) : option (Q * Q) :=
    match regs with
    | [] => None
    | p :: r => match last_reg r s with
                | Some x => Some x
                | None => if Nat.eqb s (fst (fst p)) then Some (snd (fst p), snd p) else None
                end
    end.
  Definition reg_volt (regs : list (station * Q * Q)) (s : station) : Q :=
    match last_reg regs s with Some x => fst x | None => 0%Q end.
  Definition reg_angle (regs : list (station * Q * Q)) (s : station) : Q :=
    match last_reg regs s with Some x => snd x | None => 0%Q end.

  (* the periods selected by time_indices (None = all), or None when numpy raises IndexError *)
  Definition sel_cols (w : nat) (T : option (list Z)) : option (list nat) :=
    match T with None => Some (seq 0 w) | Some ts => norm_indices w ts end.

  (* sum_k a_k * x_k *)
  Fixpoint lin_sum (a x : list A) : A :=
    match a, x with
    | u :: a', v :: x' => add (mul u v) (lin_sum a' x')
    | _, _ => zero
    end.

  (* operations other than register_evse *)
  Definition no_register (o : op) : bool :=
    match o with ORegister _ _ _ => false | _ => true end.

  (* station ids of a list of registrations (station, voltage, angle) *)
  Definition reg_ids (regs : list (station * Q * Q)) : list station := map (fun p => fst (fst p)) regs.

  (* sum_k a_k * (x_k * w_k) *)
  Fixpoint lin_sum_w (a x w : list A) : A :=
    match a, x, w with
    | u :: a', v :: x', z :: w' => add (mul u (mul v z)) (lin_sum_w a' x' w')
    | _, _, _ => zero
    end.

End Net.

Arguments net A : clear implicits.
Arguments frame A : clear implicits.
Arguments sched A : clear implicits.
Arguments op A : clear implicits.
Arguments live A : clear implicits.
Arguments ghost A : clear implicits.
Arguments jnet A : clear implicits.

(* ---------------------------------------------------------------------------------------------
   executable instance over Q and the correspondence record.
   One case = a sequence of operations on one ChargingNetwork object, with what the REAL object
   showed after each of them. *)
Open Scope Q_scope.

Definition qnet := net Q.
Definition qcc := constraint_current (A := Q) 0 Qplus Qmult Qabs.
Definition qccp := constraint_current_phase (A := Q) 0 Qplus Qmult.

(* equality of two query outcomes up to == on the numbers *)
Definition oq_equiv (x y : option Q) : Prop :=
  match x, y with Some u, Some v => u == v | None, None => True | _, _ => False end.

Definition res_equiv (r r' : res (list (list (option Q)))) : Prop :=
  match r, r' with
  | Ok a, Ok b => Forall2 (Forall2 oq_equiv) a b
  | Err e, Err e' => e = e'
  | _, _ => False
  end.

(* the schedule is given per station (xf s = the row of station s); each network receives the rows in
   ITS station order *)
Definition sched_for (w : nat) (xf : station -> list Q) (sts : list station) : sched Q :=
  mkSched w (map xf sts).

Inductive cop : Type :=
| CRegister (s : station) (v ph : Q)
| CAdd (e : cexpr Q) (limit : Q) (name : option string)
| CRemove (name : string)
| CUpdate (name : string) (e : cexpr Q) (limit : Q) (new_name : option string)
| CSnap                                   (* record the whole state *)
| CJson                                   (* net = ChargingNetwork.from_json(net.to_json()); then record the state *)
| CQuery (X : sched Q) (C : option (list string)) (T : option (list Z))
| CQueryP (X : sched Q) (C : option (list string)) (T : option (list Z)) (trig : list (Q * Q)).   (* linear=False *)

Definition qmatrix := list (list (option Q)).

Inductive obs : Type :=
| BStep (err : option string) (names : list string) (limits : list Q)
| BSnap (sts : list station) (vs phs : list Q) (mat : option qmatrix)
        (df_cols : list station) (df_idx : list string) (df_vals : qmatrix)
        (limits : list Q) (names : list string)
| BSnapDeg (sts : list station) (vs phs : list Q) (df_err : option string) (limits : list Q) (names : list string)
                                          (* matrix of shape (0,) after a lossy reload *)
| BQuery (r : res qmatrix)
| BQueryP (r : res (qmatrix * qmatrix)).

Record c12case := {
  k_mode : inplace_mode;
  k_lossy : bool;                          (* harness probe: a row-less matrix loses its shape in a JSON round trip *)
  k_ops : list cop;
  k_obs : list obs
}.

Definition to_op (m : inplace_mode) (o : cop) : option (op Q) :=
  match o with
  | CRegister s v ph => Some (ORegister s v ph)
  | CAdd e l nm => Some (OAdd (qdenote m e) l nm)
  | CRemove nm => Some (ORemove nm)
  | CUpdate nm e l nn => Some (OUpdate nm (qdenote m e) l nn)
  | CSnap | CJson | CQuery _ _ _ | CQueryP _ _ _ _ => None
  end.

Definition snapshot (j : jnet Q) : obs :=
  let n := jn j in
  if jdeg j then
    BSnapDeg (stations n) (volts n) (angles n)
             (if Nat.eqb (List.length (stations n)) 1 then None else Some "ValueError"%string) (mags n) (cnames n)
  else
    let df := constraints_as_df n in
    BSnap (stations n) (volts n) (angles n) (cmat n) (f_cols df) (f_idx df) (f_rows df) (mags n) (cnames n).

Definition observe (m : inplace_mode) (lossy : bool) (o : cop) (j : jnet Q) : obs * jnet Q :=
  match to_op m o with
  | Some o' =>
      let r := jstep 0 o' j in
      (BStep (fst r) (cnames (jn (snd r))) (mags (jn (snd r))), snd r)
  | None =>
      match o with
      | CQuery X C T =>
          (BQuery (if jdeg j
                   then match sel_cols (xw X) T with None => Err "IndexError"%string | Some _ => Err "ValueError"%string end
                   else qcc X C T (jn j)), j)
      | CQueryP X C T trig =>
          (BQueryP (if jdeg j
                    then match sel_cols (xw X) T with None => Err "IndexError"%string | Some _ => Err "ValueError"%string end
                    else qccp X C T trig (jn j)), j)
      | CJson => let j' := json_reload lossy j in (snapshot j', j')
      | _ => (snapshot j, j)
      end
  end.

Fixpoint observe_all (m : inplace_mode) (lossy : bool) (ops : list cop) (j : jnet Q) : list obs :=
  match ops with
  | [] => []
  | o :: r => let p := observe m lossy o j in fst p :: observe_all m lossy r (snd p)
  end.

Definition str_list_eqb := list_eqb String.eqb.
Definition qexact_list_eqb := list_eqb Qeq_bool.
Definition qmatrix_eqb : qmatrix -> qmatrix -> bool := list_eqb (list_eqb (option_eqb Qclose)).

Definition obs_eqb (a b : obs) : bool :=
  match a, b with
  | BStep e1 n1 l1, BStep e2 n2 l2 =>
      option_eqb String.eqb e1 e2 && str_list_eqb n1 n2 && qexact_list_eqb l1 l2
  | BSnap s1 v1 p1 m1 c1 i1 d1 l1 n1, BSnap s2 v2 p2 m2 c2 i2 d2 l2 n2 =>
      list_eqb Nat.eqb s1 s2 && qexact_list_eqb v1 v2 && qexact_list_eqb p1 p2
      && option_eqb qmatrix_eqb m1 m2 && list_eqb Nat.eqb c1 c2 && str_list_eqb i1 i2
      && qmatrix_eqb d1 d2 && qexact_list_eqb l1 l2 && str_list_eqb n1 n2
  | BSnapDeg s1 v1 p1 e1 l1 n1, BSnapDeg s2 v2 p2 e2 l2 n2 =>
      list_eqb Nat.eqb s1 s2 && qexact_list_eqb v1 v2 && qexact_list_eqb p1 p2
      && option_eqb String.eqb e1 e2 && qexact_list_eqb l1 l2 && str_list_eqb n1 n2
  | BQuery r1, BQuery r2 => res_eqb qmatrix_eqb r1 r2
  | BQueryP r1, BQueryP r2 =>
      res_eqb (fun a b => qmatrix_eqb (fst a) (fst b) && qmatrix_eqb (snd a) (snd b)) r1 r2
  | _, _ => false
  end.

(* the in-place mode recorded by the harness must be the one read from the class by tools/gen_c12.py *)
Definition check_c12 (c : c12case) : bool :=
  inplace_mode_eqb (k_mode c) repo_inplace_mode && Bool.eqb (k_lossy c) repo_json_lossy &&
  list_eqb obs_eqb (observe_all (k_mode c) (k_lossy c) (k_ops c) (mkJ (net0 (A := Q)) false)) (k_obs c).
