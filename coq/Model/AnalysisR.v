(* Model/AnalysisR.v — the R instance of the analysis model (the one the C18 theorems are about):
   Model/Analysis.v applied to the scalar kernels regenerated from analysis/__init__.py and ev.py
   over R (Gen/Analysis_R.v, Gen/Battery_R.v).  Definitions only. *)
From Coq Require Import ZArith Reals List Bool.
From ACN Require Import Base.Num Base.NumR Gen.Analysis_R Gen.Battery_R Model.Ledger Model.LedgerR Model.Analysis.
Import ListNotations.
Open Scope R_scope.

Definition RA : akern R :=
  {| a_power_scale := An_power_scale;
     a_abs_applied := An_abs_applied;
     a_proportion := An_proportion;
     a_remaining := EV_remaining_demand;
     a_demand_met := An_demand_met;
     a_demands_ratio := An_demands_ratio;
     a_nema := An_nema;
     a_minutes := An_minutes;
     a_energy_cost := An_energy_cost;
     a_demand_charge := An_demand_charge |}.

(* the recorded matrix of a ledger run, station-major as Simulator.charging_rates *)
Definition station_major (by_period : list (list R)) (n : nat) : list (list R) :=
  map (fun s => map (fun col => nth s col 0) by_period) (seq 0 n).
