(* Model/ResumeHeap.v — the event queue of Model/Resume.v instantiated with the exact
   heapq-based EventQueue model of property C11 (Model/HeapQ.v, Model/Events.v).
   Definitions only (proofs: Proofs/ResumeHeap.v).

   C11 models an event object by (precedence, identity) and a heap entry by
   (timestamp, (precedence, identity)).  The resume model needs more of an event (its type, the
   EV's session / station / departure), so the queue state carries, next to the C11 array, the
   table "identity -> event object" (Python's object store) and the next fresh identity.
   add_event / get_current_events / empty / get_last_timestamp are C11's functions, verbatim.

   EventQueue._timestep is written by get_current_events before it is read and read nowhere
   else, so the C11 operations do not depend on its previous value (Proofs/ResumeHeap.v,
   gce_timestep_irrelevant); the state kept here is the array only and every operation is run on
   the C11 queue record rebuilt from it. *)
From Coq Require Import ZArith List Bool String.
From ACN Require Import Base.Num Base.ListX Base.ResumeBase Model.Resume.
From ACN Require Model.HeapQ Model.Events.
Import ListNotations.
Open Scope Z_scope.

Record hq : Type := {
  h_arr : list Model.Events.item;        (* EventQueue._queue, in array (heap) order *)
  h_tbl : list (nat * event);            (* identity -> event object *)
  h_next : nat                           (* next fresh identity *)
}.

Fixpoint nlookup {A} (k : nat) (l : list (nat * A)) : option A :=
  match l with
  | [] => None
  | (k', v) :: r => if Nat.eqb k k' then Some v else nlookup k r
  end.

(* the heap entry (event.timestamp, event) of an event object with identity n *)
Definition item_of (n : nat) (e : event) : Model.Events.item := (e_ts e, (e_prec e, n)).
Definition item_id (x : Model.Events.item) : nat := snd (snd x).
(* the event object a heap entry refers to *)
Definition ev_of (tbl : list (nat * event)) (x : Model.Events.item) : event :=
  match nlookup (item_id x) tbl with Some e => e | None => dummy_event end.

Definition cq (arr : list Model.Events.item) : Model.Events.queue :=
  {| Model.Events.q_queue := arr; Model.Events.q_timestep := 0 |}.

Definition hq_new : hq := {| h_arr := []; h_tbl := []; h_next := O |}.

(* EventQueue.add_event(e): e is a new object *)
Definition hq_push (e : event) (h : hq) : hq :=
  {| h_arr := Model.Events.q_queue (Model.Events.add_event (cq (h_arr h)) (item_of (h_next h) e));
     h_tbl := (h_next h, e) :: h_tbl h;
     h_next := S (h_next h) |}.

(* EventQueue.get_current_events(t) *)
Definition hq_pop (t : Z) (h : hq) : list event * hq :=
  let '(q', l) := Model.Events.get_current_events (cq (h_arr h)) t in
  (map (ev_of (h_tbl h)) l,
   {| h_arr := Model.Events.q_queue q'; h_tbl := h_tbl h; h_next := h_next h |}).

Definition HeapEQ : queue_impl :=
  {| Qt := hq;
     q_empty := fun h => Model.Events.eq_empty (cq (h_arr h));
     q_pop := hq_pop;
     q_push := hq_push;
     q_last := fun h => Model.Events.get_last_timestamp (cq (h_arr h));
     q_elems := fun h => map (ev_of (h_tbl h)) (h_arr h) |}.

(* EventQueue(events): add_events in the given order *)
Definition hq_init (evs : list event) : hq := fold_left (fun h e => hq_push e h) evs hq_new.

(* the representation invariant hq_inv (heap order of the array, table consistency) is stated in
   Proofs/ResumeHeap.v next to C11's is_heap *)

(* ---- the class of simulations for which the resume theorem holds at full strength ----
   a decidable condition on the initial event list: timestamps are not negative, and a session to
   be plugged in leaves after the period in which it is plugged in (timestamp < ev.departure).
   Any event type is allowed, including the untyped base class Event. *)
Definition event_ok (e : event) : bool :=
  Z.leb 0 (e_ts e) && (negb (pushes_unplug (e_type e)) || Z.ltb (e_ts e) (e_dep e)).
Definition history_ok (evs : list event) : bool := forallb event_ok evs.

(* Simulator(network, scheduler, EventQueue(events), ...) before the first run(), any rest of state *)
Definition initial_sim (St : Type) (evs : list event) (mr : option Z) (rest : St) : sim HeapEQ St :=
  Build_sim HeapEQ St 0 false None mr (hq_init evs) [] rest.

(* ---- executable instance (correspondence): the discrete rest of state over the C11 queue ---- *)
Definition init_simE (evs : list event) (mr : option Z) : sim HeapEQ dstate := initial_sim dstate evs mr d0.
Definition drunE := run HeapEQ dstate unit d_ops (fun _ => tt).

Definition item_obs (tbl : list (nat * event)) (x : Model.Events.item) : string * Z * Z :=
  let e := ev_of tbl x in (e_type e, fst x, e_sess e).
Definition obs_ofE (s : sim HeapEQ dstate) : obs :=
  {| o_iter := s_iter s; o_resolve := s_resolve s; o_last := s_last s;
     o_queue := map (item_obs (h_tbl (s_queue s))) (h_arr (s_queue s));
     o_ehist := map ev_obs (s_ehist s);
     o_evh := d_evh (s_rest s); o_occ := occ_sort (d_occ (s_rest s)); o_calls := d_calls (s_rest s) |}.

(* the same comparison as check_c09, with the C11 queue in place of Model/Resume.HeapQ *)
Definition check_c09E (c : c09case) : bool :=
  let s0 := init_simE (c_events c) (c_mr c) in
  match drunE (c_fuel c) None s0, drunE (c_fuel c) (Some (c_k c)) s0 with
  | Done r, Raised sc =>
      obs_eqb (obs_ofE r) (i_ref c) && obs_eqb (obs_ofE sc) (i_crash c)
      && obs_eqb (obs_ofE sc) (i_loaded c)
      && match drunE (c_fuel c) None sc with
         | Done r' => obs_eqb (obs_ofE r') (i_resumed c) && obs_eqb (obs_ofE r') (i_resumed_loaded c)
         | _ => false
         end
  | _, _ => false
  end.
Definition check_c09_both (c : c09case) : bool := check_c09 c && check_c09E c.
