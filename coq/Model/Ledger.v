(* Model/Ledger.v — the energy ledger of one simulation (C02).

   A small state machine that does what `Simulator.run` does to the three separately stored
   quantities the property talks about:
     * the EV counter  `EV._energy_delivered`            (ev.py, EV.charge)
     * the battery     `Battery._current_charge`         (battery.py, the three charge laws)
     * the matrix      `Simulator.charging_rates`, `Simulator.peak`
                                                         (simulator.py, _store_actual_charging_rates;
                                                          charging_network.py, update_pilots,
                                                          current_charging_rates)
   Stations are kept in network order (the OrderedDict `_EVSEs`).  Operations:
     Plugin station session battery   = ChargingNetwork.plugin(EV(...))  (processed PluginEvent)
     Unplug station session           = ChargingNetwork.unplug(station_id, session_id)
     Step pilots noise                = one period: update_pilots(column), _store_actual_charging_rates
   The model is written ONCE, polymorphic in the numeric carrier (`fops`) and in the scalar
   kernels (`kern`), which are the functions regenerated from /repo on every run
   (Gen/Battery_*.v, Gen/Evse_*.v, Gen/Ledger_*.v).  The Q instance below is executable and is
   what the correspondence check runs; the R instance (Proofs/Ledger.v) is what the theorems are
   about.  Definitions only. *)
From Coq Require Import ZArith QArith Qminmax Qabs Qround List Bool.
From ACN Require Import Base.Num Base.ListX Gen.EvseZ_Z.
Import ListNotations.

(* ---------------------------------------------------------------- numeric carrier *)
Record fops (F : Type) := mk_fops {
  o0 : F; o1 : F;
  oadd : F -> F -> F; osub : F -> F -> F; omul : F -> F -> F; odiv : F -> F -> F;
  oofZ : Z -> F;
  omax : F -> F -> F;
  oltb : F -> F -> bool;
  oeqb : F -> F -> bool;
  osqrt : F -> F
}.
Arguments o0 {F}. Arguments o1 {F}. Arguments oadd {F}. Arguments osub {F}. Arguments omul {F}.
Arguments odiv {F}. Arguments oofZ {F}. Arguments omax {F}. Arguments oltb {F}. Arguments oeqb {F}.
Arguments osqrt {F}.

(* ---------------------------------------------------------------- batteries *)
Inductive bkind := BIdeal | BL2cont | BL2step.     (* Battery / Linear2StageBattery continuous / stepwise *)
Record batt (F : Type) := mk_batt {
  b_kind : bkind;
  b_cap : F;       (* _capacity *)
  b_cur : F;       (* _current_charge *)
  b_pow : F;       (* _current_charging_power *)
  b_maxp : F;      (* _max_power *)
  b_noise : F;     (* _noise_level *)
  b_tsoc : F       (* _transition_soc *)
}.
Arguments mk_batt {F}. Arguments b_kind {F}. Arguments b_cap {F}. Arguments b_cur {F}.
Arguments b_pow {F}. Arguments b_maxp {F}. Arguments b_noise {F}. Arguments b_tsoc {F}.

(* ---------------------------------------------------------------- scalar kernels (generated code) *)
Record kern (F B : Type) := mk_kern {
  (* BaseEVSE.set_pilot(pilot, voltage, period) given `valid = self._valid_rate(pilot)`:
     None = raises InvalidRateError; Some c = accepted, c = arguments of the EV.charge call if one is made *)
  k_set_pilot : option Z -> F -> F -> F -> bool -> option (option (F * F * F));
  (* EV.charge(pilot, voltage, period) given the rate returned by the battery:
     (returned rate, new _energy_delivered, new _current_charging_rate) *)
  k_ev_charge : F -> F -> F -> F -> F -> F * F * F;
  (* battery.charge(pilot, voltage, period) with the noise draws: None = raises ValueError *)
  k_bstep : B -> F -> F -> F -> F * F -> option (F * B);
  k_bcharge : B -> F;                       (* _current_charge *)
  k_rate_elt : option F -> F -> F;          (* element of ChargingNetwork.current_charging_rates *)
  k_peak : F -> F -> F;                     (* max(self.peak, agg) *)
  k_peak_init : F                           (* self.peak = 0 *)
}.
Arguments k_set_pilot {F B}. Arguments k_ev_charge {F B}. Arguments k_bstep {F B}.
Arguments k_bcharge {F B}. Arguments k_rate_elt {F B}. Arguments k_peak {F B}. Arguments k_peak_init {F B}.

Section Ledger.
  Context {F B : Type}.
  Variable O : fops F.
  Variable K : kern F B.

  Record ev := mk_ev {
    e_sid : Z;        (* session id *)
    e_energy : F;     (* _energy_delivered *)
    e_rate : F;       (* _current_charging_rate *)
    e_batt : B
  }.
  (* static description of one registered station *)
  Record stn := mk_stn { s_id : Z; s_volt : F; s_valid : F -> bool }.

  Record state := mk_state {
    evs : list (option ev);            (* occupant of each station, network order *)
    cols : list (list F);              (* charging_rates, one column per simulated period, NEWEST FIRST *)
    occs : list (list (option Z));     (* per period: session connected to each station during the charging step *)
    peak : F;
    hist : list ev                     (* EVs that have been unplugged (they stay in ev_history) *)
  }.

  Inductive op :=
  | Plugin (station sid : Z) (b : B)
  | Unplug (station sid : Z)
  | Step (pilots : list F) (noise : list (F * F)).

  (* EV.__init__ : _energy_delivered = 0, _current_charging_rate = 0 *)
  Definition new_ev (sid : Z) (b : B) : ev :=
    {| e_sid := sid; e_energy := o0 O; e_rate := o0 O; e_batt := b |}.

  (* ChargingNetwork.plugin -> BaseEVSE.plugin ; None = KeyError / StationOccupiedError *)
  Fixpoint plugin_at (net : list stn) (l : list (option ev)) (station sid : Z) (b : B)
    : option (list (option ev)) :=
    match net, l with
    | s :: net', o :: l' =>
        if Z.eqb (s_id s) station then
          match BaseEVSE_plugin (option_map e_sid o) sid with
          | OkS _ => Some (Some (new_ev sid b) :: l')
          | ErrS _ _ => None
          end
        else option_map (cons o) (plugin_at net' l' station sid b)
    | _, _ => None
    end.

  (* ChargingNetwork.unplug(station_id, session_id): unplugs only the named session, otherwise warns.
     Returns the new occupancy and the EV that left, if any.  None = KeyError. *)
  Fixpoint unplug_at (net : list stn) (l : list (option ev)) (station sid : Z)
    : option (list (option ev) * option ev) :=
    match net, l with
    | s :: net', o :: l' =>
        if Z.eqb (s_id s) station then
          match o with
          | None => Some (o :: l', None)
          | Some e =>
              if Z.eqb sid (e_sid e)
              then Some ((match BaseEVSE_unplug__ev BaseEVSE_unplug with None => None | Some _ => o end) :: l', Some e)
              else Some (o :: l', None)
          end
        else match unplug_at net' l' station sid with
             | Some (l2, d) => Some (o :: l2, d)
             | None => None
             end
    | _, _ => None
    end.

  (* EV.charge: battery first, then the generated counter update *)
  Definition charge_ev (e : ev) (p v t : F) (n : F * F) : option ev :=
    match k_bstep K (e_batt e) p v t n with
    | None => None
    | Some (r, b') =>
        let '(_, en', cr') := k_ev_charge K (e_energy e) p v t r in
        Some {| e_sid := e_sid e; e_energy := en'; e_rate := cr'; e_batt := b' |}
    end.

  (* evse.set_pilot(pilot, voltage, period) on one station *)
  Definition set_pilot_one (T : F) (s : stn) (o : option ev) (p : F) (n : F * F) : option (option ev) :=
    match k_set_pilot K (option_map e_sid o) p (s_volt s) T (s_valid s p) with
    | None => None
    | Some None => Some o
    | Some (Some (p', v', t')) =>
        match o with
        | Some e => option_map Some (charge_ev e p' v' t' n)
        | None => None
        end
    end.

  (* ChargingNetwork.update_pilots(pilots, i, period): stations in network order *)
  Fixpoint update_pilots (T : F) (net : list stn) (l : list (option ev)) (ps : list F) (ns : list (F * F))
    : option (list (option ev)) :=
    match net, l with
    | [], [] => Some []
    | s :: net', o :: l' =>
        match ps with
        | [] => None
        | p :: ps' =>
            match set_pilot_one T s o p (hd (o0 O, o0 O) ns) with
            | None => None
            | Some o' => option_map (cons o') (update_pilots T net' l' ps' (tl ns))
            end
        end
    | _, _ => None
    end.

  (* ChargingNetwork.current_charging_rates *)
  Definition current_rates (l : list (option ev)) : list F :=
    map (fun o => k_rate_elt K (option_map e_rate o) (match o with Some e => e_rate e | None => o0 O end)) l.

  Definition fsum (l : list F) : F := fold_right (oadd O) (o0 O) l.

  (* Simulator._store_actual_charging_rates (+ the occupancy seen by post_charging_update) *)
  Definition store (st : state) (l' : list (option ev)) : state :=
    let cur := current_rates l' in
    {| evs := l'; cols := cur :: cols st; occs := map (option_map e_sid) l' :: occs st;
       peak := k_peak K (peak st) (fsum cur); hist := hist st |}.

  Definition apply_op (T : F) (net : list stn) (st : state) (o : op) : option state :=
    match o with
    | Plugin station sid b =>
        match plugin_at net (evs st) station sid b with
        | Some l' => Some {| evs := l'; cols := cols st; occs := occs st; peak := peak st; hist := hist st |}
        | None => None
        end
    | Unplug station sid =>
        match unplug_at net (evs st) station sid with
        | Some (l', d) =>
            Some {| evs := l'; cols := cols st; occs := occs st; peak := peak st;
                    hist := match d with Some e => e :: hist st | None => hist st end |}
        | None => None
        end
    | Step ps ns =>
        match update_pilots T net (evs st) ps ns with
        | Some l' => Some (store st l')
        | None => None
        end
    end.

  Fixpoint run (T : F) (net : list stn) (st : state) (ops : list op) : option state :=
    match ops with
    | [] => Some st
    | o :: r => match apply_op T net st o with
                | Some st' => run T net st' r
                | None => None
                end
    end.

  Definition init_state (net : list stn) : state :=
    {| evs := map (fun _ => None) net; cols := []; occs := []; peak := k_peak_init K; hist := [] |}.

  Definition simulate (T : F) (net : list stn) (ops : list op) : option state :=
    run T net (init_state net) ops.

  (* every EV object the simulation has seen (the values of Simulator.ev_history, up to order) *)
  Definition connected (st : state) : list ev :=
    flat_map (fun o => match o with Some e => [e] | None => [] end) (evs st).
  Definition all_evs (st : state) : list ev := connected st ++ hist st.

  (* ------------------------------------------------------------ first-principles quantities *)
  (* energy [kWh] of `r` amperes at `v` volts during one period of T minutes *)
  Definition energy_of (T v r : F) : F :=
    omul O (odiv O (omul O r v) (oofZ O 1000)) (odiv O T (oofZ O 60)).

  Definition connected_as (o : option Z) (x : Z) : bool :=
    match o with Some y => Z.eqb y x | None => false end.

  (* energy recorded for session x in one period: sum over the stations x was connected to *)
  Fixpoint period_energy (T : F) (net : list stn) (col : list F) (occ : list (option Z)) (x : Z) : F :=
    match net, col, occ with
    | s :: net', r :: col', o :: occ' =>
        oadd O (if connected_as o x then energy_of T (s_volt s) r else o0 O)
               (period_energy T net' col' occ' x)
    | _, _, _ => o0 O
    end.

  (* sum over all periods of the recorded energy of session x *)
  Fixpoint ledger_sum (T : F) (net : list stn) (cs : list (list F)) (os : list (list (option Z))) (x : Z) : F :=
    match cs, os with
    | c :: cs', o :: os' => oadd O (period_energy T net c o x) (ledger_sum T net cs' os' x)
    | _, _ => o0 O
    end.

  (* charge of the battery handed to the Plugin of session x *)
  Fixpoint init_charge (ops : list op) (x : Z) : option F :=
    match ops with
    | [] => None
    | Plugin _ sid b :: r => if Z.eqb sid x then Some (k_bcharge K b) else init_charge r x
    | _ :: r => init_charge r x
    end.

  Definition plugged_sids (ops : list op) : list Z :=
    flat_map (fun o => match o with Plugin _ sid _ => [sid] | _ => [] end) ops.
  Definition plugged_batts (ops : list op) : list B :=
    flat_map (fun o => match o with Plugin _ _ b => [b] | _ => [] end) ops.

  (* energy [kWh] recorded in one column: sum over stations of rate * V / 1000 * (T / 60) *)
  Fixpoint column_energy (T : F) (net : list stn) (col : list F) : F :=
    match net, col with
    | s :: net', r :: col' => oadd O (energy_of T (s_volt s) r) (column_energy T net' col')
    | _, _ => o0 O
    end.

  Definition n_steps (ops : list op) : nat :=
    length (filter (fun o => match o with Step _ _ => true | _ => false end) ops).

  (* max(0, max_t sum_s rates[s][t]) as the code accumulates it *)
  Definition peak_of (cs : list (list F)) : F :=
    fold_right (fun c acc => omax O acc (fsum c)) (o0 O) cs.

  (* the matrix in chronological order, as `Simulator.charging_rates[:, :iteration].T` *)
  Definition rates_by_period (st : state) : list (list F) := rev (cols st).
  Definition occupancy_by_period (st : state) : list (list (option Z)) := rev (occs st).
End Ledger.

Arguments mk_ev {F B}. Arguments e_sid {F B}. Arguments e_energy {F B}. Arguments e_rate {F B}. Arguments e_batt {F B}.
Arguments mk_stn {F}. Arguments s_id {F}. Arguments s_volt {F}. Arguments s_valid {F}.
Arguments mk_state {F B}. Arguments evs {F B}. Arguments cols {F B}. Arguments occs {F B}.
Arguments peak {F B}. Arguments hist {F B}.
Arguments Plugin {F B}. Arguments Unplug {F B}. Arguments Step {F B}.
