(* Model/SimPerm.v — executable model of one Simulator.run() in which everything per-station is
   KEYED BY STATION ID (association lists in registration order), used for C10 (determinism,
   independence of registration / constraint / session order, time shift).

   Modelled (exact rationals): Simulator.run / _process_event (plugin, session-checked unplug) /
   the recompute condition / _update_schedules (empty schedule, unknown station, unequal lengths,
   densification with zero rows, block write with growth) / ChargingNetwork.update_pilots /
   BaseEVSE.set_pilot (validity from the regenerated _valid_rate kernels via Model/EVSE.v) /
   EV.charge and Battery.charge (regenerated kernels) / _store_actual_charging_rates /
   ChargingNetwork.is_feasible (phase-aware: the warning issued by _update_schedules) /
   Interface.active_sessions (connected and not fully charged, in station order).
   The event queue is modelled by its contract (C11): in period t the due events are the Unplug
   events with departure t (precedence 0, first) and the Plugin events with arrival t (precedence 10),
   each class in the order of the session list.  The scheduler is an oracle
   [sched : nat -> list sinfo -> list (Z * list Q)] (iteration, active sessions in station order
   |-> {station_id: [pilots]}); instances: uncontrolled charging and scripted schedules.
   Definitions only. *)
From Coq Require Import ZArith QArith Qminmax Qabs List Bool String Arith.
From ACN Require Import Base.Num Base.ListX Gen.Evse_Q Gen.EvseZ_Z Gen.Battery_Q Model.EVSE.
Import ListNotations.
Open Scope Q_scope.
Open Scope list_scope.

Record station := { st_kind : evse_kind; st_voltage : Q; st_cos : Q; st_sin : Q }.
Record session := { se_id : Z; se_station : Z; se_arr : nat; se_dep : nat;
                    se_req : Q; se_cap : Q; se_init : Q; se_maxp : Q }.
(* a connected EV: EV._energy_delivered, Battery._current_charge, ._current_charging_power,
   EV._current_charging_rate *)
Record evst := { ev_se : session; ev_delivered : Q; ev_charge : Q; ev_power : Q; ev_rate : Q }.
Record slot := { sl_st : station; sl_ev : option evst; sl_cur_pilot : Q;
                 sl_pilots : list Q;          (* row of pilot_signals (zero beyond its end) *)
                 sl_rates : list Q;           (* row of charging_rates, one entry per simulated period *)
                 sl_done : list (Z * Q) }.    (* sessions that left this station: (session id, energy delivered) *)
Definition slots := list (Z * slot).
(* one network constraint: name, coefficient per station id, limit *)
Record constraint := { c_name : Z; c_coef : list (Z * Q); c_limit : Q }.

Record sinfo := { si_station : Z; si_session : Z; si_req : Q; si_delivered : Q;
                  si_arr : nat; si_dep : nat; si_max : Q }.
Definition scheduler := nat -> list sinfo -> list (Z * list Q).

Definition with_ev (sl : slot) (e : option evst) : slot :=
  {| sl_st := sl_st sl; sl_ev := e; sl_cur_pilot := sl_cur_pilot sl; sl_pilots := sl_pilots sl;
     sl_rates := sl_rates sl; sl_done := sl_done sl |}.

Definition slot_upd (s : Z) (f : slot -> slot) (l : slots) : slots :=
  map (fun p => if Z.eqb (fst p) s then (fst p, f (snd p)) else p) l.

Definition occ_id (sl : slot) : option Z := option_map (fun e => se_id (ev_se e)) (sl_ev sl).

Definition fresh_ev (x : session) : evst :=
  {| ev_se := x; ev_delivered := 0; ev_charge := se_init x; ev_power := 0; ev_rate := 0 |}.

(* network.plugin(ev): KeyError / StationOccupiedError are [None] *)
Definition plugin (l : slots) (x : session) : option slots :=
  match zassoc (se_station x) l with
  | None => None
  | Some sl =>
      match BaseEVSE_plugin (occ_id sl) (se_id x) with
      | OkS _ => Some (slot_upd (se_station x) (fun sl => with_ev sl (Some (fresh_ev x))) l)
      | ErrS _ _ => None
      end
  end.

(* network.unplug(station_id, session_id): only the named session is removed; EVSE.unplug resets
   the current pilot *)
Definition unplug_slot (sid : Z) (sl : slot) : slot :=
  match sl_ev sl with
  | Some e =>
      if Z.eqb (se_id (ev_se e)) sid then
        {| sl_st := sl_st sl; sl_ev := None; sl_cur_pilot := 0; sl_pilots := sl_pilots sl;
           sl_rates := sl_rates sl; sl_done := sl_done sl ++ [(sid, ev_delivered e)] |}
      else sl
  | None => sl
  end.
Definition unplug (l : slots) (x : session) : option slots :=
  match zassoc (se_station x) l with
  | None => None
  | Some _ => Some (slot_upd (se_station x) (unplug_slot (se_id x)) l)
  end.

Fixpoint fold_opt {A B} (f : A -> B -> option A) (l : list B) (a : A) : option A :=
  match l with
  | [] => Some a
  | b :: r => match f a b with Some a' => fold_opt f r a' | None => None end
  end.

Definition departing (t : nat) (ses : list session) := filter (fun x => Nat.eqb (se_dep x) t) ses.
Definition arriving (t : nat) (ses : list session) := filter (fun x => Nat.eqb (se_arr x) t) ses.

Definition process_events (t : nat) (ses : list session) (l : slots) : option slots :=
  match fold_opt unplug (departing t ses) l with
  | Some l1 => fold_opt plugin (arriving t ses) l1
  | None => None
  end.

(* Interface.active_sessions: connected EVs that are not fully charged, in station order *)
Definition active (l : slots) : list sinfo :=
  flat_map (fun p =>
    match sl_ev (snd p) with
    | Some e =>
        if EV_fully_charged (ev_delivered e) (se_req (ev_se e)) then []
        else [{| si_station := fst p; si_session := se_id (ev_se e); si_req := se_req (ev_se e);
                 si_delivered := ev_delivered e; si_arr := se_arr (ev_se e); si_dep := se_dep (ev_se e);
                 si_max := max_rate (st_kind (sl_st (snd p))) |}]
    | None => []
    end) l.

(* rows *)
Definition zeros (n : nat) : list Q := repeat 0 n.
Definition write_block (t : nat) (blk row : list Q) : list Q :=
  let row' := row ++ zeros (t - List.length row) in
  firstn t row' ++ blk ++ skipn (t + List.length blk) row'.

Definition with_pilots (sl : slot) (r : list Q) : slot :=
  {| sl_st := sl_st sl; sl_ev := sl_ev sl; sl_cur_pilot := sl_cur_pilot sl; sl_pilots := r;
     sl_rates := sl_rates sl; sl_done := sl_done sl |}.

Definition zmemb (x : Z) (l : list Z) : bool := existsb (Z.eqb x) l.

(* Simulator._update_schedules *)
Definition apply_schedule (t : nat) (sch : list (Z * list Q)) (l : slots) : option slots :=
  match sch with
  | [] => Some l
  | (_, r0) :: _ =>
      let len := List.length r0 in
      if forallb (fun p => zmemb (fst p) (map fst l)) sch              (* else KeyError *)
         && forallb (fun p => Nat.eqb (List.length (snd p)) len) sch   (* else InvalidScheduleError *)
      then Some (map (fun p =>
                  (fst p, with_pilots (snd p)
                     (write_block t (match zassoc (fst p) sch with Some r => r | None => zeros len end)
                                  (sl_pilots (snd p))))) l)
      else None
  end.

(* phase-aware feasibility of a schedule block (ChargingNetwork.is_feasible): for every constraint
   and every period, |sum_s a_s x_s e^{j phi_s}| <= limit + max(abs_tol, rel_tol * limit) *)
Definition coef (c : constraint) (s : Z) : Q := match zassoc s (c_coef c) with Some a => a | None => 0 end.
Definition agg_re (c : constraint) (x : Z -> Q) (l : slots) : Q :=
  Qsum (map (fun p => coef c (fst p) * x (fst p) * st_cos (sl_st (snd p))) l).
Definition agg_im (c : constraint) (x : Z -> Q) (l : slots) : Q :=
  Qsum (map (fun p => coef c (fst p) * x (fst p) * st_sin (sl_st (snd p))) l).
Definition within (abs_tol rel_tol : Q) (c : constraint) (x : Z -> Q) (l : slots) : bool :=
  let lim := c_limit c + Qmax abs_tol (rel_tol * c_limit c) in
  Qleb 0 lim && Qleb (agg_re c x l * agg_re c x l + agg_im c x l * agg_im c x l) (lim * lim).
Definition feasible (abs_tol rel_tol : Q) (cs : list constraint) (sch : list (Z * list Q)) (l : slots) : bool :=
  match sch with
  | [] => true
  | (_, r0) :: _ =>
      forallb (fun k =>
        forallb (fun c =>
          within abs_tol rel_tol c
                 (fun s => match zassoc s sch with Some r => nth k r 0 | None => 0 end) l) cs)
        (seq 0 (List.length r0))
  end.

(* EVSE.set_pilot + EV.charge + Battery.charge for one station in period t *)
(* Simulator.run widens pilot_signals with zero columns so that column t exists (_increase_width) *)
Definition widen (n : nat) (row : list Q) : list Q := row ++ zeros (n - List.length row).

Definition charge_slot (t : nat) (period : Q) (sl : slot) : option slot :=
  let row := widen (S t) (sl_pilots sl) in
  let pilot := nth t row 0 in
  if valid_rate (st_kind (sl_st sl)) pilot then
    match sl_ev sl with
    | None =>
        Some {| sl_st := sl_st sl; sl_ev := None; sl_cur_pilot := pilot; sl_pilots := row;
                sl_rates := sl_rates sl ++ [0]; sl_done := sl_done sl |}
    | Some e =>
        match Battery_charge (se_cap (ev_se e)) (ev_charge e) (ev_power e) (se_maxp (ev_se e))
                             pilot (st_voltage (sl_st sl)) period with
        | ErrS _ _ => None
        | OkS b =>
            let o := EV_charge (ev_delivered e) pilot (st_voltage (sl_st sl)) period (Battery_charge_ret b) in
            (* Qred: same rational, reduced representation (keeps the executable model fast) *)
            let e' := {| ev_se := ev_se e; ev_delivered := Qred (EV_charge__energy_delivered o);
                         ev_charge := Qred (Battery_charge__current_charge b);
                         ev_power := Qred (Battery_charge__current_charging_power b);
                         ev_rate := Qred (EV_charge__current_charging_rate o) |} in
            Some {| sl_st := sl_st sl; sl_ev := Some e'; sl_cur_pilot := pilot; sl_pilots := row;
                    sl_rates := sl_rates sl ++ [ev_rate e']; sl_done := sl_done sl |}
        end
    end
  else None.                                   (* InvalidRateError *)

Fixpoint map_opt {A B} (f : A -> option B) (l : list A) : option (list B) :=
  match l with
  | [] => Some []
  | a :: r => match f a, map_opt f r with Some b, Some r' => Some (b :: r') | _, _ => None end
  end.

Definition update_pilots (t : nat) (period : Q) (l : slots) : option slots :=
  map_opt (fun p => match charge_slot t period (snd p) with Some sl => Some (fst p, sl) | None => None end) l.

Record simstate := { ss_slots : slots; ss_last : option nat; ss_warn : list (nat * bool) }.

Record config := { cf_sessions : list session; cf_max_recompute : option nat; cf_period : Q;
                   cf_constraints : list constraint; cf_abs_tol : Q; cf_rel_tol : Q }.

(* one iteration of the while loop of Simulator.run *)
Definition sim_step (sched : scheduler) (cf : config) (t : nat) (st : simstate) : option simstate :=
  let had_event := negb (match departing t (cf_sessions cf), arriving t (cf_sessions cf) with
                         | [], [] => true | _, _ => false end) in
  match process_events t (cf_sessions cf) (ss_slots st) with
  | None => None
  | Some l1 =>
      let last1 := if had_event then Some t else ss_last st in
      let due := had_event ||
                 match cf_max_recompute cf with
                 | None => false
                 | Some m => match last1 with None => true | Some l0 => Nat.leb m (t - l0) end
                 end in
      let r := if due then
                 let sch := sched t (active l1) in
                 match apply_schedule t sch l1 with
                 | Some l2 => Some (l2, Some t,
                                    match sch with
                                    | [] => ss_warn st
                                    | _ => ss_warn st ++ [(t, negb (feasible (cf_abs_tol cf) (cf_rel_tol cf) (cf_constraints cf) sch l1))]
                                    end)
                 | None => None
                 end
               else Some (l1, last1, ss_warn st) in
      match r with
      | None => None
      | Some (l2, last2, w) =>
          match update_pilots t (cf_period cf) l2 with
          | Some l3 => Some {| ss_slots := l3; ss_last := last2; ss_warn := w |}
          | None => None
          end
      end
  end.

Fixpoint sim_loop (sched : scheduler) (cf : config) (t fuel : nat) (st : simstate) : option simstate :=
  match fuel with
  | O => Some st
  | S f => match sim_step sched cf t st with
           | Some st1 => sim_loop sched cf (S t) f st1
           | None => None
           end
  end.

(* the event queue is non-empty exactly up to the last departure *)
Definition horizon (ses : list session) : nat :=
  match ses with [] => O | _ => S (fold_right (fun x m => Nat.max (se_dep x) m) O ses) end.

Definition init_slots (sts : list (Z * station)) : slots :=
  map (fun p => (fst p, {| sl_st := snd p; sl_ev := None; sl_cur_pilot := 0; sl_pilots := [];
                          sl_rates := []; sl_done := [] |})) sts.

Definition simulate (sched : scheduler) (sts : list (Z * station)) (cf : config) : option simstate :=
  sim_loop sched cf O (horizon (cf_sessions cf))
           {| ss_slots := init_slots sts; ss_last := None; ss_warn := [] |}.

(* per-station / per-session observables *)
Definition pilot_row (n : nat) (sl : slot) : list Q := firstn n (sl_pilots sl ++ zeros n).
Definition out_pilots (n : nat) (st : simstate) (s : Z) : option (list Q) :=
  option_map (pilot_row n) (zassoc s (ss_slots st)).
Definition out_rates (st : simstate) (s : Z) : option (list Q) :=
  option_map sl_rates (zassoc s (ss_slots st)).
Definition out_done (st : simstate) (s : Z) : option (list (Z * Q)) :=
  option_map sl_done (zassoc s (ss_slots st)).
Definition energy_of (st : simstate) (x : Z) : option Q :=
  zassoc x (flat_map (fun p => sl_done (snd p)) (ss_slots st)).

(* ---- scheduler instances ---- *)
(* UncontrolledCharging.schedule: {station: [max_pilot_signal(station)]} for every active session *)
Definition sched_uncontrolled : scheduler :=
  fun _ act => map (fun a => (si_station a, [si_max a])) act.
(* a scripted scheduler: the dictionary returned at each iteration is fixed in advance *)
Definition sched_script (script : list (nat * list (Z * list Q))) : scheduler :=
  fun t _ => match find (fun p => Nat.eqb (fst p) t) script with Some p => snd p | None => [] end.

(* a sorting-based scheduler: the active sessions are sorted by an integer key (stable insertion
   sort, like Python's sorted) and handed to an allocation procedure *)
Fixpoint insert_by (key : sinfo -> Z) (a : sinfo) (l : list sinfo) : list sinfo :=
  match l with
  | [] => [a]
  | x :: r => if Z.leb (key a) (key x) then a :: x :: r else x :: insert_by key a r
  end.
Definition sort_by (key : sinfo -> Z) (l : list sinfo) : list sinfo := fold_right (insert_by key) [] l.
Definition sched_sorted (key : sinfo -> Z) (alloc : nat -> list sinfo -> list (Z * list Q)) : scheduler :=
  fun t act => alloc t (sort_by key act).

Inductive sched_kind := Uncontrolled | Script (script : list (nat * list (Z * list Q))).
Definition sched_of (k : sched_kind) : scheduler :=
  match k with Uncontrolled => sched_uncontrolled | Script s => sched_script s end.

(* ---- correspondence case: one real run ---- *)
Record c10case := {
  k_stations : list (Z * station);
  k_config : config;
  k_sched : sched_kind;
  (* recorded from the implementation *)
  i_iterations : nat;
  i_pilots : list (Z * list Q);        (* station id, pilot_signals[row, :iteration] *)
  i_rates : list (Z * list Q);
  i_energy : list (Z * Q);             (* session id, ev.energy_delivered *)
  i_warn : list (nat * bool);          (* iteration, "Invalid schedule provided" warning issued *)
  i_check_warn : bool;                 (* false when a feasibility decision is within 1e-6 of its threshold (float-ambiguous) *)
  i_crashed : bool                     (* the implementation raised *)
}.

Definition Qclose_list (a b : list Q) : bool := list_eqb Qclose a b.

Definition check_c10 (c : c10case) : bool :=
  match simulate (sched_of (k_sched c)) (k_stations c) (k_config c) with
  | None => i_crashed c
  | Some st =>
      let n := horizon (cf_sessions (k_config c)) in
      negb (i_crashed c)
      && Nat.eqb n (i_iterations c)
      && Nat.eqb (List.length (i_pilots c)) (List.length (k_stations c))
      && forallb (fun p => match out_pilots n st (fst p) with Some r => Qclose_list r (snd p) | None => false end) (i_pilots c)
      && Nat.eqb (List.length (i_rates c)) (List.length (k_stations c))
      && forallb (fun p => match out_rates st (fst p) with Some r => Qclose_list r (snd p) | None => false end) (i_rates c)
      && Nat.eqb (List.length (i_energy c)) (List.length (cf_sessions (k_config c)))
      && forallb (fun p => match energy_of st (fst p) with Some q => Qclose q (snd p) | None => false end) (i_energy c)
      && (negb (i_check_warn c)
          || list_eqb (fun a b => Nat.eqb (fst a) (fst b) && Bool.eqb (snd a) (snd b)) (ss_warn st) (i_warn c))
      && list_eqb Nat.eqb (map fst (ss_warn st)) (map fst (i_warn c))
  end.
