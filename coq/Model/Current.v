(* Model/Current.v — acnportal/acnsim/network/current.py (class Current, a pandas Series subclass).

   A Current is an ordered association list  station id -> coefficient  (the Series index, in index
   order, with its values).  Station ids are numbers: the harness numbers the station names it uses by
   their rank in Python's string order, so `Nat.leb` on ids is Python's `<=` on the names (needed
   because pandas SORTS the union of two different indexes).

   Definitions only (total, computable); polymorphic in the coefficient type A with the operations
   the code uses (0, 1, +, *, -1).  The executable instance over Q is at the end of the file.

   What is modelled, per construct of current.py:
     Current(None)            -> []                               (empty float64 Series)
     Current("s")             -> [(s,1)]
     Current(["s1";...])      -> {s:1 for s in list}              (a dict: duplicates collapse, first position kept)
     Current({s:v,...})       -> the pairs in dict order          (keys of a dict literal are distinct)
     Current(Series)          -> the pairs in index order         (assumption: unique index)
     a + b, Series + a        -> Current(a.add(b, fill_value=0)): index = a's index if both indexes are
                                 equal (same labels, same order), otherwise the SORTED union; value at k =
                                 (a[k] or 0) + (b[k] or 0)
     a * k, k * a             -> Current(Series(a).mul(k)): same index, v * k
     a - b                    -> Current(a.add(-1 * b, fill_value=0))
     a += b, a -= b           -> if the class defines __iadd__/__isub__ (it does since a20c019: `return self + other`,
                                 `return self - other`) the name is rebound to the binary result (mode
                                 `InplaceRebind`).  Otherwise pandas' NDFrame._inplace_method runs: r = op(a, b);
                                 a._update_inplace(r.reindex_like(a)) — the result is cut back to a's OWN index
                                 (mode `InplaceReindex`; that was the defect).  Which one applies is read from the
                                 class body on every run (Gen/C12Shape.v) and confirmed by the correspondence.
     a *= k                   -> Current defines no __imul__: pandas' in-place path, r.reindex_like(a) with
                                 r = a * k (same index, so nothing is lost). *)
From Coq Require Import List Bool Arith QArith.
From ACN Require Import Base.Num Base.ListX Gen.C12Shape.
Import ListNotations.

Definition station := nat.

Section Current.
  Context {A : Type}.
  Variables (zero one : A) (add mul : A -> A -> A) (neg1 : A).

  Definition current := list (station * A).

  Definition keys (c : current) : list station := map fst c.

  Fixpoint lookup (s : station) (c : current) : option A :=
    match c with
    | [] => None
    | (k, v) :: r => if Nat.eqb s k then Some v else lookup s r
    end.

  (* coefficient of station s in c; 0 when s is not in the index (fill_value = 0 / fillna(0)) *)
  Definition coeff (c : current) (s : station) : A :=
    match lookup s c with Some v => v | None => zero end.

  Definition smem (s : station) (l : list station) : bool := existsb (Nat.eqb s) l.

  (* order of first occurrence, duplicates dropped: keys of {x: 1 for x in l} *)
  Fixpoint dedup_first (seen l : list station) : list station :=
    match l with
    | [] => []
    | x :: r => if smem x seen then dedup_first seen r else x :: dedup_first (x :: seen) r
    end.

  Definition cur_none : current := [].
  Definition cur_str (s : station) : current := [(s, one)].
  Definition cur_list (l : list station) : current := map (fun s => (s, one)) (dedup_first [] l).
  Definition cur_dict (l : list (station * A)) : current := l.
  Definition cur_series (l : list (station * A)) : current := l.

  (* pandas Index.union / join(how="outer") on two unique string indexes *)
  Definition union_keys (ka kb : list station) : list station :=
    if list_eqb Nat.eqb ka kb then ka else sort_dedup Nat.leb Nat.eqb (ka ++ kb).

  Definition cur_add (a b : current) : current :=
    map (fun k => (k, add (coeff a k) (coeff b k))) (union_keys (keys a) (keys b)).

  Definition cur_mul (a : current) (k : A) : current :=
    map (fun p => (fst p, mul (snd p) k)) a.

  Definition cur_sub (a b : current) : current := cur_add a (cur_mul b neg1).

  (* r.reindex_like(a) for r whose index contains a's *)
  Definition reindex_like (a r : current) : current :=
    map (fun p => (fst p, coeff r (fst p))) a.

  Inductive inplace_mode := InplaceReindex | InplaceRebind.

  Definition cur_inplace (m : inplace_mode) (a r : current) : current :=
    match m with InplaceReindex => reindex_like a r | InplaceRebind => r end.

  (* expression trees: every way the harness builds a Current *)
  Inductive cexpr : Type :=
  | ENone
  | EStr (s : station)
  | EList (l : list station)
  | EDict (l : list (station * A))
  | ESeries (l : list (station * A))
  | EAdd (a b : cexpr)                     (* a + b *)
  | ESub (a b : cexpr)                     (* a - b *)
  | EMul (a : cexpr) (k : A)               (* a * k *)
  | ERmul (k : A) (a : cexpr)              (* k * a *)
  | ERaddSer (l : list (station * A)) (a : cexpr)   (* pd.Series(l) + a   -> Current.__radd__ *)
  | EAddSer (a : cexpr) (l : list (station * A))    (* a + pd.Series(l) *)
  | EIadd (a b : cexpr)                    (* t = a; t += b; t *)
  | EIsub (a b : cexpr)                    (* t = a; t -= b; t *)
  | EImul (a : cexpr) (k : A).             (* t = a; t *= k; t *)

  Fixpoint denote (m : inplace_mode) (e : cexpr) : current :=
    match e with
    | ENone => cur_none
    | EStr s => cur_str s
    | EList l => cur_list l
    | EDict l => cur_dict l
    | ESeries l => cur_series l
    | EAdd a b => cur_add (denote m a) (denote m b)
    | ESub a b => cur_sub (denote m a) (denote m b)
    | EMul a k => cur_mul (denote m a) k
    | ERmul k a => cur_mul (denote m a) k
    | ERaddSer l a => cur_add (denote m a) (cur_series l)
    | EAddSer a l => cur_add (denote m a) (cur_series l)
    | EIadd a b => let x := denote m a in cur_inplace m x (cur_add x (denote m b))
    | EIsub a b => let x := denote m a in cur_inplace m x (cur_sub x (denote m b))
    | EImul a k => let x := denote m a in reindex_like x (cur_mul x k)
    end.

  (* the value the algebra SHOULD give at station s: evaluate the tree pointwise *)
  Fixpoint ceval (e : cexpr) (s : station) : A :=
    match e with
    | ENone => zero
    | EStr t => coeff (cur_str t) s
    | EList l => coeff (cur_list l) s
    | EDict l => coeff (cur_dict l) s
    | ESeries l => coeff (cur_series l) s
    | EAdd a b | EIadd a b => add (ceval a s) (ceval b s)
    | ESub a b | EIsub a b => add (ceval a s) (mul (ceval b s) neg1)
    | EMul a k | ERmul k a | EImul a k => mul (ceval a s) k
    | ERaddSer l a | EAddSer a l => add (ceval a s) (coeff (cur_series l) s)
    end.

  (* stations mentioned anywhere in the tree *)
  Fixpoint emention (e : cexpr) : list station :=
    match e with
    | ENone => []
    | EStr t => [t]
    | EList l => l
    | EDict l | ESeries l => map fst l
    | EAdd a b | ESub a b | EIadd a b | EIsub a b => emention a ++ emention b
    | EMul a _ | ERmul _ a | EImul a _ => emention a
    | ERaddSer l a | EAddSer a l => emention a ++ map fst l
    end.

  (* in-place sum/difference nodes whose right operand brings a station the left one lacks *)
  Fixpoint inplace_lossless (m : inplace_mode) (e : cexpr) : bool :=
    match e with
    | ENone | EStr _ | EList _ | EDict _ | ESeries _ => true
    | EAdd a b | ESub a b => inplace_lossless m a && inplace_lossless m b
    | EMul a _ | ERmul _ a | EImul a _ | ERaddSer _ a | EAddSer a _ => inplace_lossless m a
    | EIadd a b | EIsub a b =>
        inplace_lossless m a && inplace_lossless m b &&
        match m with
        | InplaceRebind => true
        | InplaceReindex => forallb (fun k => smem k (keys (denote m a))) (keys (denote m b))
        end
    end.
End Current.

Arguments current A : clear implicits.
Arguments cexpr A : clear implicits.

(* ---------------------------------------------------------------------------------------------
   executable instance over Q and the correspondence record for the algebra stream *)
Open Scope Q_scope.
Definition qcurrent := current Q.
Definition qcoeff := coeff (A := Q) 0.
Definition qdenote := denote (A := Q) 0 1 Qplus Qmult (-1 # 1).
Definition qceval := ceval (A := Q) 0 1 Qplus Qmult (-1 # 1).

(* which in-place semantics the class under test has (tools/gen_c12.py reads it off the class body) *)
Definition repo_inplace_mode : inplace_mode :=
  if current_defines_inplace then InplaceRebind else InplaceReindex.
Definition inplace_mode_eqb (a b : inplace_mode) : bool :=
  match a, b with InplaceReindex, InplaceReindex | InplaceRebind, InplaceRebind => true | _, _ => false end.

Record c12alg := {
  g_mode : inplace_mode;
  g_expr : cexpr Q;
  g_keys : list station;        (* implementation: list(result.index), as station numbers *)
  g_vals : list Q               (* implementation: list(result.values) *)
}.

Definition check_c12alg (c : c12alg) : bool :=
  let r := qdenote (g_mode c) (g_expr c) in
  inplace_mode_eqb (g_mode c) repo_inplace_mode &&
  list_eqb Nat.eqb (keys r) (g_keys c) && list_eqb Qclose (map snd r) (g_vals c).
