(* Model/Resume.v — C09 part (a): Simulator.run() at the granularity that matters for interruption.
   Definitions only (proofs are in Proofs/Resume.v).

   What is taken from the code on every run (Gen/):
     Run_guard, Run_recompute, Run_next_iteration   sub-expressions of Simulator.run (py2coq)
     EventQueue_is_current, Event_lt                loop test of get_current_events, Event.__lt__
     process_event_branches                         Simulator._process_event as a table of effects
     event_classes                                  event_type / precedence set by the event constructors
   What is modelled by hand: the shape of the loop body (pop current events; append to
   event_history and process each; recompute test; scheduler call, which may raise; schedule update;
   network period step; iteration + 1), CPython's heapq (heap instance), and the order of the statements.

   The rest of the simulator (network, EVs, batteries, pilot / rate matrices, ev_history,
   schedule_history, peak) is an abstract component `St` updated by abstract operations; the event
   queue is an abstract implementation `queue_impl`.  The resume theorem is proved for every St,
   every operations record, every scheduler oracle and every queue implementation that satisfies
   `queue_laws`; two queue instances are given: `ListQ` (laws proved) and `HeapQ` (CPython's heapq,
   line by line; used by the correspondence check, where its pop order is compared with the real
   EventQueue). *)
From Coq Require Import ZArith List Bool String Arith.
From ACN Require Import Base.Num Base.ListX Base.ResumeBase Gen.ResumeZ_Z Gen.Serial.
Import ListNotations.
Open Scope Z_scope.

(* ------------------------------------------------------------------------------------------ *)
(* events                                                                                     *)
(* ------------------------------------------------------------------------------------------ *)
(* e_sess / e_station / e_dep describe the EV of an EVEvent (session number, station number,
   ev.departure); they are ignored for events without an EV. *)
Record event : Type := {
  e_ts : Z; e_type : string; e_prec : Z; e_sess : Z; e_station : Z; e_dep : Z }.

Definition event_eqb (a b : event) : bool :=
  Z.eqb (e_ts a) (e_ts b) && String.eqb (e_type a) (e_type b) && Z.eqb (e_prec a) (e_prec b)
  && Z.eqb (e_sess a) (e_sess b) && Z.eqb (e_station a) (e_station b) && Z.eqb (e_dep a) (e_dep b).

(* (event_type, precedence) assigned by the constructor of class c *)
Definition class_consts (c : string) : string * Z :=
  match sassoc c event_classes with Some p => p | None => (""%string, inf_precedence) end.

Definition mk_event (cls : string) (ts sess station dep : Z) : event :=
  {| e_ts := ts; e_type := fst (class_consts cls); e_prec := snd (class_consts cls);
     e_sess := sess; e_station := station; e_dep := dep |}.

(* UnplugEvent(event.ev.departure, event.ev) *)
Definition mk_unplug (e : event) : event :=
  mk_event "UnplugEvent" (e_dep e) (e_sess e) (e_station e) (e_dep e).

(* the branch of the if/elif chain of _process_event taken for an event_type (none: no effect) *)
Definition branch_of (t : string) : list pe_effect :=
  match sassoc t process_event_branches with Some l => l | None => [] end.

Definition effects_resolve (r : bool) (effs : list pe_effect) : bool :=
  fold_left (fun r f => match f with PE_set_resolve b => b | _ => r end) effs r.
(* processing an event of this type leaves _resolve = True *)
Definition sets_resolve (t : string) : bool := effects_resolve false (branch_of t).
(* processing an event of this type queues an UnplugEvent at ev.departure *)
Definition pushes_unplug (t : string) : bool := existsb (pe_effect_eqb PE_push_unplug) (branch_of t).

(* ------------------------------------------------------------------------------------------ *)
(* abstract queue and abstract rest of the state                                              *)
(* ------------------------------------------------------------------------------------------ *)
Record queue_impl : Type := {
  Qt : Type;
  q_empty : Qt -> bool;                         (* EventQueue.empty *)
  q_pop : Z -> Qt -> list event * Qt;           (* EventQueue.get_current_events(timestep) *)
  q_push : event -> Qt -> Qt;                   (* EventQueue.add_event *)
  q_last : Qt -> option Z;                      (* EventQueue.get_last_timestamp *)
  q_elems : Qt -> list event                    (* the pending events (abstraction used by the laws) *)
}.

Record rest_ops (St Sched : Type) : Type := {
  net_plugin : event -> St -> St;               (* self.network.plugin(event.ev) *)
  net_unplug : event -> St -> St;               (* self.network.unplug(station_id, session_id) *)
  rec_ev : event -> St -> St;                   (* self.ev_history[session_id] = event.ev *)
  (* _update_schedules(new_schedule) [+ schedule_history] at iteration i; sees get_last_timestamp *)
  apply_sched : Z -> Sched -> option Z -> St -> St;
  (* width increase, network.update_pilots, _store_actual_charging_rates, post_charging_update *)
  period_step : Z -> option Z -> St -> St
}.
Arguments net_plugin {St Sched}. Arguments net_unplug {St Sched}. Arguments rec_ev {St Sched}.
Arguments apply_sched {St Sched}. Arguments period_step {St Sched}.

Section Loop.
  Variable QI : queue_impl.
  Variables St Sched : Type.
  Variable R : rest_ops St Sched.

  Record sim : Type := {
    s_iter : Z;                 (* _iteration *)
    s_resolve : bool;           (* _resolve *)
    s_last : option Z;          (* _last_schedule_update *)
    s_mr : option Z;            (* max_recompute *)
    s_queue : Qt QI;            (* event_queue *)
    s_ehist : list event;       (* event_history *)
    s_rest : St }.

  Definition with_queue (q : Qt QI) (s : sim) : sim :=
    {| s_iter := s_iter s; s_resolve := s_resolve s; s_last := s_last s; s_mr := s_mr s;
       s_queue := q; s_ehist := s_ehist s; s_rest := s_rest s |}.
  Definition with_rest (r : St) (s : sim) : sim :=
    {| s_iter := s_iter s; s_resolve := s_resolve s; s_last := s_last s; s_mr := s_mr s;
       s_queue := s_queue s; s_ehist := s_ehist s; s_rest := r |}.
  Definition with_resolve (b : bool) (s : sim) : sim :=
    {| s_iter := s_iter s; s_resolve := b; s_last := s_last s; s_mr := s_mr s;
       s_queue := s_queue s; s_ehist := s_ehist s; s_rest := s_rest s |}.
  Definition with_last (l : option Z) (s : sim) : sim :=
    {| s_iter := s_iter s; s_resolve := s_resolve s; s_last := l; s_mr := s_mr s;
       s_queue := s_queue s; s_ehist := s_ehist s; s_rest := s_rest s |}.
  Definition with_ehist (h : list event) (s : sim) : sim :=
    {| s_iter := s_iter s; s_resolve := s_resolve s; s_last := s_last s; s_mr := s_mr s;
       s_queue := s_queue s; s_ehist := h; s_rest := s_rest s |}.
  Definition with_iter (i : Z) (s : sim) : sim :=
    {| s_iter := i; s_resolve := s_resolve s; s_last := s_last s; s_mr := s_mr s;
       s_queue := s_queue s; s_ehist := s_ehist s; s_rest := s_rest s |}.

  (* one statement of a _process_event branch *)
  Definition apply_effect (e : event) (s : sim) (f : pe_effect) : sim :=
    match f with
    | PE_plugin => with_rest (net_plugin R e (s_rest s)) s
    | PE_unplug => with_rest (net_unplug R e (s_rest s)) s
    | PE_record_ev => with_rest (rec_ev R e (s_rest s)) s
    | PE_push_unplug => with_queue (q_push QI (mk_unplug e) (s_queue s)) s
    | PE_set_resolve b => with_resolve b s
    | PE_set_last_update_ts => with_last (Some (e_ts e)) s
    end.

  (* Simulator._process_event *)
  Definition process_event (s : sim) (e : event) : sim :=
    fold_left (apply_effect e) (branch_of (e_type e)) s.

  (* current_events = get_current_events(_iteration);
     for e in current_events: event_history.append(e); _process_event(e) *)
  Definition handle_event (s : sim) (e : event) : sim :=
    process_event (with_ehist (s_ehist s ++ [e]) s) e.
  Definition pop_and_process (s : sim) : sim :=
    let '(evs, q') := q_pop QI (s_iter s) (s_queue s) in
    fold_left handle_event evs (with_queue q' s).

  Definition recompute_due (s : sim) : bool :=
    Run_recompute (s_iter s) (s_last s) (s_resolve s) (s_mr s).

  (* after a successful scheduler call: _update_schedules; schedule_history;
     _last_schedule_update = _iteration; _resolve = False *)
  Definition after_sched (sch : Sched) (s : sim) : sim :=
    with_resolve false
      (with_last (Some (s_iter s))
         (with_rest (apply_sched R (s_iter s) sch (q_last QI (s_queue s)) (s_rest s)) s)).

  (* the rest of the period, then _iteration = _iteration + 1 *)
  Definition advance (s : sim) : sim :=
    with_iter (Run_next_iteration (s_iter s))
      (with_rest (period_step R (s_iter s) (q_last QI (s_queue s)) (s_rest s)) s).

  (* the scheduler: any function of the simulator state it is called in *)
  Variable sched : sim -> Sched.

  Inductive outcome : Type :=
  | Done (s : sim)        (* run() returned *)
  | Raised (s : sim)      (* the scheduler raised; s is the simulator state left behind *)
  | OutOfFuel (s : sim).

  (* run(): `guard resolve queue_empty` is the loop test; `pre` is what the `if` block does before
     `new_schedule = self.scheduler.run()` (now: `self._resolve = True`); crash = Some k makes the
     (k+1)-th scheduler call of this run() raise. *)
  Fixpoint run_gen (guard : bool -> bool -> bool) (pre : sim -> sim) (fuel : nat) (crash : option nat) (s : sim)
    : outcome :=
    match fuel with
    | O => OutOfFuel s
    | S f =>
        if guard (s_resolve s) (q_empty QI (s_queue s)) then
          let s1 := pop_and_process s in
          if recompute_due s1 then
            let s1r := pre s1 in
            match crash with
            | Some O => Raised s1r
            | Some (S k) => run_gen guard pre f (Some k) (advance (after_sched (sched s1r) s1r))
            | None => run_gen guard pre f None (advance (after_sched (sched s1r) s1r))
            end
          else run_gen guard pre f crash (advance s1)
        else Done s
    end.

  (* the current code: translated loop test; a resolve is kept pending across the scheduler call *)
  Definition pending_resolve (s : sim) : sim := with_resolve true s.
  Definition run := run_gen Run_guard pending_resolve.
  (* the loop test of the code before commit e3d86c7 *)
  Definition old_guard (resolve queue_empty : bool) : bool := negb queue_empty.
  Definition run_old := run_gen old_guard pending_resolve.
  (* the code before `self._resolve = True` was put in front of the scheduler call *)
  Definition run_nopre := run_gen Run_guard (fun s => s).

  (* run(); whenever the scheduler raises (at the calls given by ks, counted per run() call),
     call run() again *)
  Fixpoint run_chain (fuel : nat) (ks : list nat) (s : sim) : outcome :=
    match ks with
    | [] => run fuel None s
    | k :: ks' => match run fuel (Some k) s with
                  | Raised sc => run_chain fuel ks' sc
                  | o => o
                  end
    end.

  (* ---- well-formedness of pending events (hypotheses of the resume theorem) ---- *)
  (* a session that is still to be plugged in leaves strictly after the period in which it is
     plugged in *)
  Definition ev_ok (e : event) : Prop :=
    pushes_unplug (e_type e) = true -> e_ts e < e_dep e.
  Definition queue_ok (s : sim) : Prop :=
    Forall (fun e => s_iter s <= e_ts e /\ ev_ok e) (q_elems QI (s_queue s)).

  (* ---- to_json / from_json / update_scheduler on this state -------------------------------
     An attribute that is missing from the dumped keys or from the restored attributes of its
     class (Gen/Serial.v) comes back as the constructor default. *)
  Definition kept (dumped restored : list (string * list string)) (a : string) : bool :=
    match sassoc a dumped, sassoc a restored with
    | Some src, Some keys => smem a src && smem a keys
    | _, _ => false
    end.
  Definition sim_kept := kept dumped_Simulator restored_Simulator.
  Definition queue_kept := kept dumped_EventQueue restored_EventQueue.
  Variable rest0 : St.        (* the rest of a freshly constructed simulator *)
  Variable queue0 : Qt QI.    (* EventQueue() *)
  Definition rest_attrs : list string :=
    ["network"; "pilot_signals"; "charging_rates"; "peak"; "ev_history"; "schedule_history"; "period"]%string.
  Definition reload (s : sim) : sim :=
    {| s_iter := if sim_kept "_iteration" then s_iter s else 0;
       s_resolve := if sim_kept "_resolve" then s_resolve s else false;
       s_last := if sim_kept "_last_schedule_update" then s_last s else None;
       s_mr := s_mr s;    (* update_scheduler sets it from the scheduler that is given again *)
       s_queue := if sim_kept "event_queue" && queue_kept "_queue" then s_queue s else queue0;
       s_ehist := if sim_kept "event_history" then s_ehist s else [];
       s_rest := if forallb sim_kept rest_attrs then s_rest s else rest0 |}.
End Loop.

Arguments s_iter {QI St}. Arguments s_resolve {QI St}. Arguments s_last {QI St}. Arguments s_mr {QI St}.
Arguments s_queue {QI St}. Arguments s_ehist {QI St}. Arguments s_rest {QI St}.
Arguments Done {QI St}. Arguments Raised {QI St}. Arguments OutOfFuel {QI St}.

(* ------------------------------------------------------------------------------------------ *)
(* the loop body as regenerated text: an interpreter for Gen/Serial.run_loop_prog              *)
(* ------------------------------------------------------------------------------------------ *)
Section Prog.
  Variable QI : queue_impl.
  Variables St Sched : Type.
  Variable N : rest_ops St Sched.     (* only net_plugin / net_unplug / rec_ev are used *)
  (* an opaque statement of the loop body: its text, _iteration, new_schedule (inside the `if`
     block only), event_queue.get_last_timestamp(), the rest of the state *)
  Variable SS : string -> Z -> option Sched -> option Z -> St -> St.
  Variable sched : sim QI St -> Sched.

  Definition rest_texts (g : bool) (prog : list (bool * run_stmt)) : list string :=
    flat_map (fun p => match p with
                       | (g', RS_rest t) => if Bool.eqb g g' then [t] else []
                       | _ => []
                       end) prog.

  (* the operations of the hand-written loop (section Loop) that correspond to the opaque
     statements: those inside the `if` block form apply_sched, the others period_step *)
  Definition R_of : rest_ops St Sched :=
    {| net_plugin := net_plugin N; net_unplug := net_unplug N; rec_ev := rec_ev N;
       apply_sched := fun i sch last st =>
         fold_left (fun st t => SS t i (Some sch) last st) (rest_texts true run_loop_prog) st;
       period_step := fun i last st =>
         fold_left (fun st t => SS t i None last st) (rest_texts false run_loop_prog) st |}.

  (* local state of one loop iteration *)
  Record loc : Type := {
    c_sim : sim QI St; c_cur : list event (* current_events *); c_due : bool; c_sch : option Sched (* new_schedule *) }.
  Definition loc0 (s : sim QI St) : loc := {| c_sim := s; c_cur := []; c_due := false; c_sch := None |}.
  Definition set_sim (s : sim QI St) (l : loc) : loc :=
    {| c_sim := s; c_cur := c_cur l; c_due := c_due l; c_sch := c_sch l |}.

  Definition exec1 (crash g : bool) (l : loc) (st : run_stmt) : loc + sim QI St :=
    let s := c_sim l in
    match st with
    | RS_pop => let '(evs, q') := q_pop QI (s_iter s) (s_queue s) in
                inl {| c_sim := with_queue QI St q' s; c_cur := evs; c_due := c_due l; c_sch := c_sch l |}
    | RS_process => inl (set_sim (fold_left (handle_event QI St Sched R_of) (c_cur l) s) l)
    | RS_test_due => inl {| c_sim := s; c_cur := c_cur l; c_due := recompute_due QI St s; c_sch := c_sch l |}
    | RS_call => if crash then inr s
                 else inl {| c_sim := s; c_cur := c_cur l; c_due := c_due l; c_sch := Some (sched s) |}
    | RS_set_last_iter => inl (set_sim (with_last QI St (Some (s_iter s)) s) l)
    | RS_set_resolve b => inl (set_sim (with_resolve QI St b s) l)
    | RS_rest t => inl (set_sim (with_rest QI St (SS t (s_iter s) (if g then c_sch l else None)
                                                    (q_last QI (s_queue s)) (s_rest s)) s) l)
    | RS_inc_iter => inl (set_sim (with_iter QI St (Run_next_iteration (s_iter s)) s) l)
    end.

  Fixpoint exec (prog : list (bool * run_stmt)) (crash : bool) (l : loc) : loc + sim QI St :=
    match prog with
    | [] => inl l
    | (g, st) :: rest =>
        if g && negb (c_due l) then exec rest crash l
        else match exec1 crash g l st with
             | inl l' => exec rest crash l'
             | inr s => inr s
             end
    end.

  Fixpoint run_prog (guard : bool -> bool -> bool) (fuel : nat) (crash : option nat) (s : sim QI St)
    : outcome QI St :=
    match fuel with
    | O => OutOfFuel s
    | S f =>
        if guard (s_resolve s) (q_empty QI (s_queue s)) then
          match exec run_loop_prog (match crash with Some O => true | _ => false end) (loc0 s) with
          | inr s1 => Raised s1
          | inl l => run_prog guard f (match c_sch l, crash with
                                       | Some _, Some (S k) => Some k
                                       | _, c => c
                                       end) (c_sim l)
          end
        else Done s
    end.
End Prog.

(* laws a queue implementation has to satisfy for the resume theorem, relative to an invariant
   `inv` of the representation (for EventQueue: the heap invariant of `_queue`; that heapq keeps it
   and that these laws follow from it is property C11) *)
Record queue_laws (QI : queue_impl) (inv : Qt QI -> Prop) : Prop := {
  ql_pop_inv : forall t q evs q', inv q -> q_pop QI t q = (evs, q') -> inv q';
  ql_push_inv : forall e q, inv q -> inv (q_push QI e q);
  (* get_current_events(t) leaves exactly later events, all of them from the queue ... *)
  ql_pop_rest : forall t q evs q', inv q -> q_pop QI t q = (evs, q') ->
                  Forall (fun e => t < e_ts e) (q_elems QI q') /\ incl (q_elems QI q') (q_elems QI q);
  (* ... and returns due events of the queue *)
  ql_pop_evs : forall t q evs q', inv q -> q_pop QI t q = (evs, q') ->
                  Forall (fun e => e_ts e <= t /\ In e (q_elems QI q)) evs;
  (* nothing due: nothing returned, queue untouched *)
  ql_pop_none : forall t q, inv q -> Forall (fun e => t < e_ts e) (q_elems QI q) -> q_pop QI t q = ([], q);
  ql_pop_nil : forall t q q', inv q -> q_pop QI t q = ([], q') -> q' = q;
  (* add_event adds one event *)
  ql_push_elems : forall e q, inv q -> incl (q_elems QI (q_push QI e q)) (e :: q_elems QI q);
  ql_push_nonempty : forall e q, inv q -> q_empty QI (q_push QI e q) = false
}.

(* ------------------------------------------------------------------------------------------ *)
(* queue instance 1: a list kept in key order (stable insertion), current events = partition   *)
(* ------------------------------------------------------------------------------------------ *)
Definition key_lt (a b : event) : bool :=
  Z.ltb (e_ts a) (e_ts b) || (Z.eqb (e_ts a) (e_ts b) && Event_lt (e_prec a) (e_prec b) 0).

Fixpoint lq_insert (x : event) (l : list event) : list event :=
  match l with
  | [] => [x]
  | y :: r => if key_lt x y then x :: y :: r else y :: lq_insert x r
  end.
Definition lq_due (t : Z) (e : event) : bool := Z.leb (e_ts e) t.
Definition lq_pop (t : Z) (l : list event) : list event * list event :=
  (filter (lq_due t) l, filter (fun e => negb (lq_due t e)) l).
Definition max_ts (l : list event) : option Z :=
  match l with [] => None | x :: r => Some (fold_left Z.max (map e_ts r) (e_ts x)) end.
Definition ListQ : queue_impl :=
  {| Qt := list event; q_empty := fun l => match l with [] => true | _ => false end;
     q_pop := lq_pop; q_push := lq_insert; q_last := max_ts; q_elems := fun l => l |}.

(* ------------------------------------------------------------------------------------------ *)
(* queue instance 2: CPython heapq on a list of (timestamp, event) entries                    *)
(* ------------------------------------------------------------------------------------------ *)
(* tuple comparison (ts_a, ev_a) < (ts_b, ev_b): first differing component; events are compared
   with Event.__lt__ (generated) *)
Definition hq_lt := key_lt.
Definition dummy_event : event := mk_event "Event" 0 (-1) (-1) (-1).

(* heapq._siftdown(heap, startpos, pos), newitem = heap[pos] *)
Fixpoint siftdown (fuel : nat) (h : list event) (startpos pos : nat) (newitem : event) : list event :=
  match fuel with
  | O => upd pos newitem h
  | S f =>
      if Nat.ltb startpos pos then
        let parentpos := Nat.div (pos - 1) 2 in
        let parent := nth parentpos h dummy_event in
        if hq_lt newitem parent then siftdown f (upd pos parent h) startpos parentpos newitem
        else upd pos newitem h
      else upd pos newitem h
  end.

(* heapq.heappush *)
Definition heappush (h : list event) (x : event) : list event :=
  let h' := (h ++ [x])%list in
  siftdown (List.length h') h' 0 (List.length h' - 1) x.

(* the while loop of heapq._siftup: bubble the smaller child up until a leaf is reached *)
Fixpoint siftup_loop (fuel : nat) (h : list event) (endpos pos : nat) : list event * nat :=
  match fuel with
  | O => (h, pos)
  | S f =>
      let childpos := (2 * pos + 1)%nat in
      if Nat.ltb childpos endpos then
        let rightpos := (childpos + 1)%nat in
        let childpos' :=
          if Nat.ltb rightpos endpos && negb (hq_lt (nth childpos h dummy_event) (nth rightpos h dummy_event))
          then rightpos else childpos in
        siftup_loop f (upd pos (nth childpos' h dummy_event) h) endpos childpos'
      else (h, pos)
  end.

(* heapq._siftup(heap, pos) *)
Definition siftup (h : list event) (pos : nat) : list event :=
  let newitem := nth pos h dummy_event in
  let '(h', p) := siftup_loop (List.length h) h (List.length h) pos in
  siftdown (List.length h) (upd p newitem h') pos p newitem.

(* heapq.heappop *)
Definition heappop (h : list event) : option (event * list event) :=
  match h with
  | [] => None
  | _ =>
      let lastelt := last h dummy_event in
      match removelast h with
      | [] => Some (lastelt, [])
      | returnitem :: r => Some (returnitem, siftup (lastelt :: r) 0)
      end
  end.

(* EventQueue.get_current_events *)
Fixpoint hq_pop_current (fuel : nat) (t : Z) (h : list event) (acc : list event) : list event * list event :=
  match fuel with
  | O => (acc, h)
  | S f =>
      let top_ts := match h with [] => 0 | top :: _ => e_ts top end in
      let is_empty := match h with [] => true | _ => false end in
      if EventQueue_is_current top_ts t t is_empty then
        match heappop h with
        | Some (e, h') => hq_pop_current f t h' (acc ++ [e])
        | None => (acc, h)
        end
      else (acc, h)
  end.

Definition HeapQ : queue_impl :=
  {| Qt := list event; q_empty := fun l => match l with [] => true | _ => false end;
     q_pop := fun t h => hq_pop_current (S (List.length h)) t h [];
     q_push := fun e h => heappush h e; q_last := max_ts; q_elems := fun l => l |}.

(* ------------------------------------------------------------------------------------------ *)
(* a concrete discrete rest-of-state: occupancy, ev_history keys, scheduler-call log           *)
(* ------------------------------------------------------------------------------------------ *)
Record dstate : Type := {
  d_occ : list (Z * Z);     (* station -> session currently plugged in *)
  d_evh : list Z;           (* ev_history keys in insertion order *)
  d_calls : list Z;         (* iterations at which a schedule was obtained and applied *)
  d_log : list (Z * list (Z * Z)) (* per period: (iteration, occupancy while the network was stepped) *)
}.
Definition d0 : dstate := {| d_occ := []; d_evh := []; d_calls := []; d_log := [] |}.

Fixpoint occ_remove (st : Z) (l : list (Z * Z)) : list (Z * Z) :=
  match l with [] => [] | (k, v) :: r => if Z.eqb k st then occ_remove st r else (k, v) :: occ_remove st r end.
Definition zmem (x : Z) (l : list Z) : bool := existsb (Z.eqb x) l.

Definition d_ops : rest_ops dstate unit :=
  {| net_plugin := fun e d =>
       {| d_occ := (occ_remove (e_station e) (d_occ d) ++ [(e_station e, e_sess e)])%list;
          d_evh := d_evh d; d_calls := d_calls d; d_log := d_log d |};
     (* ChargingNetwork.unplug: only the session that is present is removed *)
     net_unplug := fun e d =>
       {| d_occ := match zassoc (e_station e) (d_occ d) with
                   | Some s => if Z.eqb s (e_sess e) then occ_remove (e_station e) (d_occ d) else d_occ d
                   | None => d_occ d
                   end;
          d_evh := d_evh d; d_calls := d_calls d; d_log := d_log d |};
     rec_ev := fun e d =>
       {| d_occ := d_occ d; d_evh := if zmem (e_sess e) (d_evh d) then d_evh d else (d_evh d ++ [e_sess e])%list;
          d_calls := d_calls d; d_log := d_log d |};
     apply_sched := fun i _ _ d =>
       {| d_occ := d_occ d; d_evh := d_evh d; d_calls := (d_calls d ++ [i])%list; d_log := d_log d |};
     period_step := fun i _ d =>
       {| d_occ := d_occ d; d_evh := d_evh d; d_calls := d_calls d; d_log := (d_log d ++ [(i, d_occ d)])%list |} |}.

Definition dsim (QI : queue_impl) := sim QI dstate.
Definition dsched (QI : queue_impl) : dsim QI -> unit := fun _ => tt.

(* Simulator(network, scheduler, EventQueue(events), ...) before the first run() *)
Definition init_heap (evs : list event) : list event := fold_left heappush evs [].
Definition init_sim (evs : list event) (mr : option Z) : dsim HeapQ :=
  Build_sim HeapQ dstate 0 false None mr (init_heap evs) [] d0.
Definition init_sim_list (evs : list event) (mr : option Z) : dsim ListQ :=
  Build_sim ListQ dstate 0 false None mr (fold_left (fun q e => lq_insert e q) evs []) [] d0.

Definition drun := run HeapQ dstate unit d_ops (dsched HeapQ).
Definition drun_old := run_old HeapQ dstate unit d_ops (dsched HeapQ).
Definition drun_nopre := run_nopre HeapQ dstate unit d_ops (dsched HeapQ).

(* ------------------------------------------------------------------------------------------ *)
(* correspondence: the real Simulator against this model                                      *)
(* ------------------------------------------------------------------------------------------ *)
Definition ev_obs (e : event) : string * Z * Z := (e_type e, e_ts e, e_sess e).

(* observables of a simulator (finished, interrupted or just loaded) *)
Record obs : Type := {
  o_iter : Z; o_resolve : bool; o_last : option Z;
  o_queue : list (string * Z * Z);      (* event_queue._queue in array (heap) order *)
  o_ehist : list (string * Z * Z);      (* event_history *)
  o_evh : list Z;                       (* ev_history keys *)
  o_occ : list (Z * Z);                 (* station -> session, in station order of plugging *)
  o_calls : list Z                      (* iterations at which the scheduler returned a schedule *)
}.

Definition triple_eqb (a b : string * Z * Z) : bool :=
  let '(s1, t1, n1) := a in let '(s2, t2, n2) := b in String.eqb s1 s2 && Z.eqb t1 t2 && Z.eqb n1 n2.
Definition pair_eqb (a b : Z * Z) : bool := Z.eqb (fst a) (fst b) && Z.eqb (snd a) (snd b).

Fixpoint occ_sorted_insert (p : Z * Z) (l : list (Z * Z)) : list (Z * Z) :=
  match l with [] => [p] | q :: r => if Z.leb (fst p) (fst q) then p :: q :: r else q :: occ_sorted_insert p r end.
Definition occ_sort (l : list (Z * Z)) : list (Z * Z) := fold_right occ_sorted_insert [] l.

Definition obs_of (s : dsim HeapQ) : obs :=
  {| o_iter := s_iter s; o_resolve := s_resolve s; o_last := s_last s;
     o_queue := map ev_obs (s_queue s); o_ehist := map ev_obs (s_ehist s);
     o_evh := d_evh (s_rest s); o_occ := occ_sort (d_occ (s_rest s)); o_calls := d_calls (s_rest s) |}.

Definition obs_eqb (a b : obs) : bool :=
  Z.eqb (o_iter a) (o_iter b) && Bool.eqb (o_resolve a) (o_resolve b)
  && option_eqb Z.eqb (o_last a) (o_last b)
  && list_eqb triple_eqb (o_queue a) (o_queue b) && list_eqb triple_eqb (o_ehist a) (o_ehist b)
  && list_eqb Z.eqb (o_evh a) (o_evh b) && list_eqb pair_eqb (o_occ a) (o_occ b)
  && list_eqb Z.eqb (o_calls a) (o_calls b).

Record c09case : Type := {
  c_events : list event;      (* the events given to EventQueue(...), in that order *)
  c_mr : option Z;            (* scheduler.max_recompute *)
  c_k : nat;                  (* the scheduler raises at its (k+1)-th call *)
  c_fuel : nat;
  i_ref : obs;                (* uninterrupted run *)
  i_crash : obs;              (* state left behind by the interrupted run() *)
  i_resumed : obs;            (* after calling run() again *)
  i_loaded : obs;             (* Simulator.from_json(crashed.to_json()) + update_scheduler *)
  i_resumed_loaded : obs      (* the loaded simulator after run() *)
}.

Definition check_c09 (c : c09case) : bool :=
  let s0 := init_sim (c_events c) (c_mr c) in
  match drun (c_fuel c) None s0, drun (c_fuel c) (Some (c_k c)) s0 with
  | Done r, Raised sc =>
      obs_eqb (obs_of r) (i_ref c) && obs_eqb (obs_of sc) (i_crash c)
      && obs_eqb (obs_of (reload HeapQ dstate d0 [] sc)) (i_loaded c)
      && match drun (c_fuel c) None sc with
         | Done r' => obs_eqb (obs_of r') (i_resumed c)
         | _ => false
         end
      && match drun (c_fuel c) None (reload HeapQ dstate d0 [] sc) with
         | Done r' => obs_eqb (obs_of r') (i_resumed_loaded c)
         | _ => false
         end
  | _, _ => false
  end.

(* placeholder for an interrupted run that could not be completed on the implementation (the
   harness records what went wrong; the case is reported as a disagreement) *)
Definition bad_case : c09case :=
  let o := {| o_iter := 0; o_resolve := false; o_last := None; o_queue := []; o_ehist := []; o_evh := [];
              o_occ := []; o_calls := [] |} in
  {| c_events := []; c_mr := None; c_k := O; c_fuel := O; i_ref := o; i_crash := o; i_resumed := o;
     i_loaded := o; i_resumed_loaded := o |}.

(* ------------------------------------------------------------------------------------------ *)
(* completeness of the serialised state (decided on the regenerated lists of Gen/Serial.v)     *)
(* ------------------------------------------------------------------------------------------ *)
(* every instance attribute of the class is dumped under its own name from its own value and
   restored from that key *)
Definition class_complete (cl : string * (list string * list (string * list string) * list (string * list string))) : bool :=
  let '(_, (st, du, re)) := cl in forallb (kept du re) st.
Definition all_classes_complete : bool := forallb class_complete serial_classes.
Definition run_reads_covered : bool := forallb (fun a => smem a state_Simulator) run_reads.
(* the classes the check expects to find in Gen/Serial.v *)
Definition expected_classes : list string :=
  ["Simulator"; "EventQueue"; "Event"; "EVEvent"; "PluginEvent"; "UnplugEvent"; "RecomputeEvent";
   "ChargingNetwork"; "BaseEVSE"; "EVSE"; "DeadbandEVSE"; "FiniteRatesEVSE"; "EV"; "Battery";
   "Linear2StageBattery"]%string.

(* the instance attributes of a class that do NOT survive a dump + load (not written by the
   _to_dict the class uses, or not restored by the _from_dict it uses) *)
Definition unserialised (st : list string) (du re : list (string * list string)) : list string :=
  filter (fun a => negb (kept du re a)) st.
