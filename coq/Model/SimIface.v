(* Model/SimIface.v — the numeric layer under the skeleton of Simulator.run and what the Interface
   shows to the scheduling algorithm (C05); correspondence cases for C01 and C05.
   Definitions only.
   Translated kernels used here: Gen/Battery_Q.v (Battery.charge, EV.charge, EV.fully_charged),
   Gen/Evse_Q.v through Model/EVSE.v (set_pilot and the three _valid_rate predicates),
   Gen/Sim_Z.v (the `i = iteration - 1`, `i > 0` and `ev.arrival <= i` pieces of
   Interface.last_applied_pilot_signals, SessionInfo's departure checks and derived fields).
   Hand-written: the pilot matrix as a sparse map column -> values (reads outside the written
   columns are 0, as in the zero-initialised / zero-padded numpy arrays), _update_schedules,
   the per-station loop of update_pilots, _store_actual_charging_rates, the view record. *)
From Coq Require Import ZArith QArith Qminmax Qabs Qreduction List Bool String.
From ACN Require Import Base.Num Base.ListX Gen.Battery_Q Gen.Sim_Z Gen.SimParams Model.EVSE Model.SimSkel.
Import ListNotations.
Open Scope string_scope.
Open Scope Q_scope.

(* ------------------------------------------------------------------------------------------ *)
(* configuration                                                                              *)
(* ------------------------------------------------------------------------------------------ *)
Record station_cfg := mkStation { st_id : Z; st_kind : evse_kind; st_voltage : Q; st_phase : Q }.

Record netcfg := mkNet {
  n_stations : list station_cfg;       (* in registration order *)
  n_period : Q;                        (* minutes *)
  n_cmat : list (list Q);              (* constraint matrix, row per constraint *)
  n_limits : list Q;
  n_cids : list Z;
  (* constraints changed in place while the simulation runs (update/add/remove_constraint between two
     scheduler invocations): (period in which the change was made, new matrix / limits / names), in
     chronological order.  A change made in period u is visible to every later invocation. *)
  n_updates : list (Z * (list (list Q) * list Q * list Z)) }.

Definition station_ids (c : netcfg) : list Z := map st_id (n_stations c).

(* ------------------------------------------------------------------------------------------ *)
(* numeric state                                                                              *)
(* ------------------------------------------------------------------------------------------ *)
Record evnum := mkEvnum {
  en_energy : Q;       (* EV._energy_delivered *)
  en_rate : Q;         (* EV._current_charging_rate *)
  en_charge : Q;       (* Battery._current_charge *)
  en_power : Q }.      (* Battery._current_charging_power *)

Definition schedule := list (Z * list Q).      (* {station_id: [pilots]} *)

Record numst := mkNum {
  ns_ev : list (Z * evnum);            (* per session id; absent = the EV as constructed *)
  ns_pilots : list (Z * list Q);       (* pilot_signals: column -> value per station *)
  ns_rates : list (Z * list Q);        (* charging_rates: column -> value per station *)
  ns_peak : Q }.

Definition num0 : numst := mkNum [] [] [] 0.

Definition ev_get (x : session) (ns : numst) : evnum :=
  match zassoc (sid x) (ns_ev ns) with
  | Some e => e
  | None => mkEvnum 0 0 (s_init x) 0
  end.
Definition zset {A} (k : Z) (v : A) (m : list (Z * A)) : list (Z * A) :=
  (k, v) :: filter (fun p => negb (Z.eqb (fst p) k)) m.
Definition col_at (m : list (Z * list Q)) (t : Z) : list Q :=
  match zassoc t m with Some c => c | None => [] end.
Definition pilot_at (ns : numst) (idx : nat) (t : Z) : Q := nth idx (col_at (ns_pilots ns) t) 0.

Section Layer.
  Variable cfg : netcfg.

  (* Simulator._update_schedules(new_schedule) at iteration t *)
  Definition sched_col (sch : schedule) (k : nat) : list Q :=
    map (fun st => match zassoc (st_id st) sch with Some row => nth k row 0 | None => 0 end)
        (n_stations cfg).

  Definition num_apply (t : Z) (ns : numst) (sch : schedule) : res numst :=
    match sch with
    | [] => Ok ns                                          (* len(new_schedule) == 0: return *)
    | (_, r0) :: _ =>
        if existsb (fun p => negb (zmem (fst p) (station_ids cfg))) sch then Err "KeyError"
        else
          let L := List.length r0 in
          if forallb (fun p => Nat.eqb (List.length (snd p)) L) sch then
            Ok (mkNum (ns_ev ns)
                      (fold_left (fun m k => zset (t + Z.of_nat k)%Z (sched_col sch k) m) (seq 0 L) (ns_pilots ns))
                      (ns_rates ns) (ns_peak ns))
          else Err "InvalidScheduleError"
    end.

  (* ChargingNetwork.update_pilots(pilot_signals, t, period): stations in order; an invalid pilot
     aborts the loop (earlier stations have already charged) *)
  Definition charge_ev (x : session) (p v : Q) (ns : numst) : res numst :=
    let e := ev_get x ns in
    match Battery_charge (s_cap x) (en_charge e) (en_power e) (s_maxp x) p v (n_period cfg) with
    | ErrS ex _ => Err ex
    | OkS b =>
        let r := EV_charge (en_energy e) p v (n_period cfg) (Battery_charge_ret b) in
        Ok (mkNum (zset (sid x) (mkEvnum (Qred (EV_charge__energy_delivered r))
                                         (Qred (EV_charge__current_charging_rate r))
                                         (Qred (Battery_charge__current_charge b))
                                         (Qred (Battery_charge__current_charging_power b))) (ns_ev ns))
                  (ns_pilots ns) (ns_rates ns) (ns_peak ns))
    end.

  Fixpoint charge_stations (t : Z) (o : occupancy) (sts : list station_cfg) (i : nat) (ns : numst)
    : res numst :=
    match sts with
    | [] => Ok ns
    | st :: r =>
        let p := pilot_at ns i t in
        let oc := occ_get (st_id st) o in
        let sp := set_pilot (st_kind st) 0 (option_map sid oc) p (st_voltage st) (n_period cfg) in
        match sp_error sp with
        | Some e => Err e
        | None =>
            match oc, sp_charge_calls sp with
            | Some x, [pilot; voltage; _] :: _ =>
                match charge_ev x pilot voltage ns with
                | Ok ns' => charge_stations t o r (S i) ns'
                | Err e => Err e
                end
            | _, _ => charge_stations t o r (S i) ns
            end
        end
    end.

  Definition num_charge (t : Z) (o : occupancy) (ns : numst) : res numst :=
    charge_stations t o (n_stations cfg) 0 ns.

  (* Simulator._store_actual_charging_rates *)
  Definition current_rates (o : occupancy) (ns : numst) : list Q :=
    map (fun st => match occ_get (st_id st) o with Some x => en_rate (ev_get x ns) | None => 0 end)
        (n_stations cfg).

  Definition num_store (t : Z) (o : occupancy) (ns : numst) : numst :=
    let cr := current_rates o ns in
    mkNum (ns_ev ns) (ns_pilots ns) (zset t cr (ns_rates ns)) (Qred (Qmax (ns_peak ns) (Qsum cr))).

  (* ---------------------------------------------------------------------------------------- *)
  (* what the Interface shows                                                                 *)
  (* ---------------------------------------------------------------------------------------- *)
  Record sinfo := mkSinfo {
    si_station : Z; si_session : Z; si_req : Q; si_deliv : Q;
    si_arr : Z; si_dep : Z; si_est : Z; si_time : Z;
    si_remaining : Z; si_offset : Z }.

  Record infra := mkInfra {
    in_ids : list Z; in_voltages : list Q; in_phases : list Q;
    in_max : list Q; in_min : list Q; in_allow : list (list Q); in_cont : list bool;
    in_cmat : list (list Q); in_limits : list Q; in_cids : list Z }.

  Record view := mkView {
    v_time : Z;                         (* interface.current_time *)
    v_minutes : Q;                      (* interface.current_datetime - start, in minutes *)
    v_sessions : list sinfo;            (* interface.active_sessions() *)
    v_last_pilots : list (Z * Q);       (* interface.last_applied_pilot_signals *)
    v_last_rates : list (Z * Q);        (* interface.last_actual_charging_rate *)
    v_peak : Q;                         (* interface.get_prev_peak() *)
    v_infra : infra }.                  (* interface.infrastructure_info() *)

  Definition infra_with (c : list (list Q) * list Q * list Z) : infra :=
    let sts := n_stations cfg in
    mkInfra (map st_id sts) (map st_voltage sts) (map st_phase sts)
            (map (fun s => max_rate (st_kind s)) sts) (map (fun s => min_rate (st_kind s)) sts)
            (map (fun s => allowable_pilot_signals (st_kind s)) sts)
            (map (fun s => is_continuous (st_kind s)) sts)
            (fst (fst c)) (snd (fst c)) (snd c).
  (* the network as built *)
  Definition infra_of : infra := infra_with (n_cmat cfg, n_limits cfg, n_cids cfg).
  (* the constraints in force when the scheduler is invoked in period t: the last change made in a
     period strictly before t, else the network as built *)
  Definition cons_at (t : Z) : list (list Q) * list Q * list Z :=
    fold_left (fun acc u => if Z.ltb (fst u) t then snd u else acc) (n_updates cfg)
              (n_cmat cfg, n_limits cfg, n_cids cfg).
  Definition infra_at (t : Z) : infra := infra_with (cons_at t).

  (* network.active_evs: connected and not fully charged, in station order (with the station's index) *)
  Fixpoint active_from (o : occupancy) (ns : numst) (sts : list station_cfg) (i : nat) : list (nat * session) :=
    match sts with
    | [] => []
    | st :: r =>
        match occ_get (st_id st) o with
        | Some x => if EV_fully_charged (en_energy (ev_get x ns)) (s_req x)
                    then active_from o ns r (S i) else (i, x) :: active_from o ns r (S i)
        | None => active_from o ns r (S i)
        end
    end.
  Definition active_evs (o : occupancy) (ns : numst) : list (nat * session) :=
    active_from o ns (n_stations cfg) 0.

  (* specification side: the EVs connected to the network, in station order, each with the index
     of its station; and "not yet satisfied" = remaining demand > 1e-3 *)
  Fixpoint connected_from (o : occupancy) (sts : list station_cfg) (i : nat) : list (nat * session) :=
    match sts with
    | [] => []
    | st :: r => match occ_get (st_id st) o with
                 | Some x => (i, x) :: connected_from o r (S i)
                 | None => connected_from o r (S i)
                 end
    end.
  Definition connected (o : occupancy) : list (nat * session) := connected_from o (n_stations cfg) 0.
  Definition unsatisfied (ns : numst) (x : session) : bool :=
    Qltb (1 # 1000) (s_req x - en_energy (ev_get x ns)).

  Definition mk_sinfo (t : Z) (ns : numst) (x : session) : sinfo :=
    mkSinfo (s_station x) (sid x) (s_req x) (en_energy (ev_get x ns)) (s_arrival x) (s_departure x) (s_est x) t
            (SessionInfo_remaining_time (s_arrival x) t (s_departure x))
            (SessionInfo_arrival_offset (s_arrival x) t).

  Definition session_rejected (x : session) : bool :=
    SessionInfo_bad_departure (s_arrival x) (s_departure x) || SessionInfo_bad_estimate (s_arrival x) (s_est x).

  Definition last_pilots (t : Z) (act : list (nat * session)) (ns : numst) : list (Z * Q) :=
    let i := Interface_lap_index t in
    if Interface_lap_guard i then
      flat_map (fun p => if Interface_lap_filter (s_arrival (snd p)) i
                         then [(sid (snd p), pilot_at ns (fst p) i)] else []) act
    else [].

  Definition num_view (t : Z) (o : occupancy) (ns : numst) : res view :=
    let act := active_evs o ns in
    if existsb (fun p => session_rejected (snd p)) act then Err "ValueError"   (* SessionInfo.__init__ *)
    else Ok (mkView t (n_period cfg * inject_Z t)
                    (map (fun p => mk_sinfo t ns (snd p)) act)
                    (last_pilots t act ns)
                    (map (fun p => (sid (snd p), en_rate (ev_get (snd p) ns))) act)
                    (ns_peak ns) (infra_at t)).
End Layer.

(* ------------------------------------------------------------------------------------------ *)
(* the instantiated simulator                                                                 *)
(* ------------------------------------------------------------------------------------------ *)
Definition sim_state := state numst view.

Definition sim_run (cfg : netcfg) (maxrec : option Z) (sched : view -> schedule) (fuel : nat)
           (st : sim_state) : outcome sim_state :=
  run numst view schedule (station_ids cfg) maxrec (num_view cfg) (num_apply cfg) (num_charge cfg)
      (num_store cfg) sched fuel st.

Definition sim_init (evs : list event) : sim_state := init numst view evs num0.

(* a scheduler given as a table period -> returned schedule (how the correspondence replays the
   schedules that the real algorithm returned) *)
Definition table_sched (tbl : list (Z * schedule)) (v : view) : schedule :=
  match zassoc (v_time v) tbl with Some s => s | None => [] end.

(* ------------------------------------------------------------------------------------------ *)
(* correspondence cases                                                                       *)
(* ------------------------------------------------------------------------------------------ *)
Record siminput := mkInput {
  c_net : netcfg; c_maxrec : option Z; c_events : list event; c_scheds : list (Z * schedule) }.

Definition run_input (c : siminput) : outcome sim_state :=
  sim_run (c_net c) (c_maxrec c) (table_sched (c_scheds c))
          (Z.to_nat (max_ts (c_events c) + 6)) (sim_init (c_events c)).

Definition out_state {A} (o : outcome A) : A :=
  match o with Done a => a | Raised _ a => a | OutOfFuel a => a end.
Definition out_error {A} (o : outcome A) : option string :=
  match o with Done _ => None | Raised e _ => Some e | OutOfFuel _ => Some "OutOfFuel" end.

(* event_history entries as (period, type code, timestamp, session id or -1) *)
Definition hist_entry (p : Z * event) : Z * Z * Z * Z :=
  (fst p, ev_code (snd p), ev_ts (snd p), match ev_session (snd p) with Some x => sid x | None => (-1)%Z end).

(* Entries with the same (period, code, timestamp) that are adjacent come out of the heap in an
   order that depends on CPython's heapq internals (C11); they are compared as sets: sort each
   maximal run by session id. *)
Definition same_group (a b : Z * Z * Z * Z) : bool :=
  match a, b with
  | (ta, ca, sa, _), (tb, cb, sb, _) => Z.eqb ta tb && Z.eqb ca cb && Z.eqb sa sb
  end.
Fixpoint insert_run (e : Z * Z * Z * Z) (l : list (Z * Z * Z * Z)) : list (Z * Z * Z * Z) :=
  match l with
  | h :: r => if same_group e h && Z.ltb (snd h) (snd e) then h :: insert_run e r else e :: l
  | [] => [e]
  end.
Definition canon (l : list (Z * Z * Z * Z)) : list (Z * Z * Z * Z) := fold_right insert_run [] l.

Definition entry_eqb (a b : Z * Z * Z * Z) : bool :=
  match a, b with
  | (ta, ca, sa, ia), (tb, cb, sb, ib) => Z.eqb ta tb && Z.eqb ca cb && Z.eqb sa sb && Z.eqb ia ib
  end.

Definition occ_row (cfg : netcfg) (o : occupancy) : list Z :=
  map (fun st => match occ_get (st_id st) o with Some x => sid x | None => (-1)%Z end) (n_stations cfg).

Definition ostr_eqb := option_eqb String.eqb.
Definition zlist_eqb := list_eqb Z.eqb.

Record c01case := mkC01 {
  c1_in : siminput;
  (* recorded from the implementation *)
  i_error : option string;                 (* exception class raised by run(), if any *)
  i_hist : list (Z * Z * Z * Z);           (* event_history, canonicalised by the harness in the same way *)
  i_occ : list (Z * list Z);               (* per period: session id (or -1) at each station, from post_charging_update *)
  i_iter : Z;                              (* _iteration after run() *)
  i_qempty : bool }.                       (* event_queue.empty() after run() *)

Definition check_c01 (c : c01case) : bool :=
  let o := run_input (c1_in c) in
  let st := out_state o in
  ostr_eqb (out_error o) (i_error c)
  && list_eqb entry_eqb (canon (map hist_entry (hist st))) (i_hist c)
  && list_eqb (fun a b => Z.eqb (fst a) (fst b) && zlist_eqb (snd a) (snd b))
              (map (fun p => (fst p, occ_row (c_net (c1_in c)) (snd p))) (occ_log st)) (i_occ c)
  && Z.eqb (iter st) (i_iter c)
  && Bool.eqb (q_empty (queue st)) (i_qempty c).

(* ---- C05: what the recording scheduler saw at each call, and the trajectory ---- *)
Definition qlist_close := list_eqb Qclose.
Definition zq_close (a b : Z * Q) : bool := Z.eqb (fst a) (fst b) && Qclose (snd a) (snd b).

Definition sinfo_close (a b : sinfo) : bool :=
  Z.eqb (si_station a) (si_station b) && Z.eqb (si_session a) (si_session b)
  && Qclose (si_req a) (si_req b) && Qclose (si_deliv a) (si_deliv b)
  && Z.eqb (si_arr a) (si_arr b) && Z.eqb (si_dep a) (si_dep b) && Z.eqb (si_est a) (si_est b)
  && Z.eqb (si_time a) (si_time b) && Z.eqb (si_remaining a) (si_remaining b)
  && Z.eqb (si_offset a) (si_offset b).

Definition infra_close (a b : infra) : bool :=
  zlist_eqb (in_ids a) (in_ids b) && qlist_close (in_voltages a) (in_voltages b)
  && qlist_close (in_phases a) (in_phases b) && qlist_close (in_max a) (in_max b)
  && qlist_close (in_min a) (in_min b) && list_eqb qlist_close (in_allow a) (in_allow b)
  && list_eqb Bool.eqb (in_cont a) (in_cont b) && list_eqb qlist_close (in_cmat a) (in_cmat b)
  && qlist_close (in_limits a) (in_limits b) && zlist_eqb (in_cids a) (in_cids b).

Definition view_close (m i : view) : bool :=
  Z.eqb (v_time m) (v_time i) && Qclose (v_minutes m) (v_minutes i)
  && list_eqb sinfo_close (v_sessions m) (v_sessions i)
  && list_eqb zq_close (v_last_pilots m) (v_last_pilots i)
  && list_eqb zq_close (v_last_rates m) (v_last_rates i)
  && Qclose (v_peak m) (v_peak i) && infra_close (v_infra m) (v_infra i).

Record c05case := mkC05 {
  c5_in : siminput;
  j_error : option string;
  j_calls : list view;                     (* one recorded view per scheduler invocation, in order *)
  j_rates : list (Z * list Q);             (* charging_rates[:, t] for every completed period t *)
  j_energy : list (Z * Q);                 (* session id -> energy_delivered after the run, by ev_history *)
  j_peak : Q;
  j_iter : Z;
  j_mut_same : bool }.                     (* the mutating scheduler produced the identical recorded trace *)

Definition check_c05 (c : c05case) : bool :=
  let o := run_input (c5_in c) in
  let st := out_state o in
  let ns := num st in
  ostr_eqb (out_error o) (j_error c)
  && list_eqb view_close (map snd (calls st)) (j_calls c)
  && list_eqb (fun a b => Z.eqb (fst a) (fst b) && qlist_close (snd a) (snd b))
              (map (fun t => (t, col_at (ns_rates ns) t)) (map fst (occ_log st))) (j_rates c)
  && forallb (fun p => match zassoc (fst p) (ev_hist st) with
                       | Some x => Qclose (en_energy (ev_get x ns)) (snd p)
                       | None => false end) (j_energy c)
  && Nat.eqb (List.length (ev_hist st)) (List.length (j_energy c))
  && Qclose (ns_peak ns) (j_peak c)
  && Z.eqb (iter st) (j_iter c)
  && j_mut_same c.
