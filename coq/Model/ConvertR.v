(* Model/ConvertR.v — the R twin of the capacity-fit part of Model/Convert.v (C15).
   Same hand-written skeleton (bisection recursion with fuel, lazy call of binsearch, float
   inf corner, capacity ladder, n-period charging loop), over the R instances of the same
   regenerated kernels (Gen/Fit_R.v, Gen/Battery_R.v).  Definitions only; not executable
   (R); the theorems of Proofs/ConvertFit.v are about these definitions. *)
From Coq Require Import ZArith Reals List Bool String.
From ACN Require Import Base.Num Base.NumR Gen.Fit_R Gen.FitConst Gen.Battery_R.
Import ListNotations.
Open Scope R_scope.

Fixpoint binsearch_R (fuel : nat) (f : R -> R) (lb ub target tol : R) : option R :=
  match fuel with
  | O => None
  | S k =>
      let mid := Fit_bs_mid lb ub in
      let val := f mid in
      if Fit_bs_done val target tol then Some mid
      else if Fit_bs_up val target
           then binsearch_R k f (Fit_bs_up_lb mid) (Fit_bs_up_ub ub) target tol
           else binsearch_R k f (Fit_bs_dn_lb lb) (Fit_bs_dn_ub mid) target tol
  end.

(* FVRrec: binsearch ran out of fuel (Python: RecursionError) *)
Inductive fitval_R := FVR (init : R) | FVRinf | FVRrec.

Definition run_bs_R (fuel : nat) (delta m n ts : R) : option R :=
  binsearch_R fuel (Fit_delta_from m n ts) (Fit_bs_lb m n) Fit_bs_ub (Fit_bs_target delta) Fit_bs_tol.

Definition of_bs (o : option R) (k : R -> R) : fitval_R :=
  match o with Some x => FVR (k x) | None => FVRrec end.

Definition get_init_cap_R (fuel : nat) (E n V T cap : R) : fitval_R :=
  let delta := Fit_delta_soc E cap in
  let m := Fit_max_dsoc T V cap in
  let ts := Fit_transition_soc in
  let d0 := Fit_delta_from m n ts Fit_d0_arg in
  if Reqb (Fit_cf_denom m n) 0 then
    if Rltb 0 delta then FVRinf
    else if Rltb d0 delta then FVR (-(1)) else of_bs (run_bs_R fuel delta m n ts) (fun bs => bs * cap)
  else
    let r := fun bs => Fit_get_init_cap T E n V cap bs d0 in
    if Reqb (r 0) (r 1) then FVR (r 0) else of_bs (run_bs_R fuel delta m n ts) r.

Inductive fitres_R := FitOkR (cap init : R) | FitInfR (cap : R) | FitNoneR | FitRecR.

Fixpoint ladder_R (fuel : nat) (caps : list R) (E n V T : R) : fitres_R :=
  match caps with
  | [] => FitNoneR
  | cap :: rest =>
      if Fit_skip_cap cap E then ladder_R fuel rest E n V T
      else match get_init_cap_R fuel E n V T cap with
           | FVRinf => FitInfR cap
           | FVRrec => FitRecR
           | FVR init => if Fit_accept_init init then FitOkR cap init else ladder_R fuel rest E n V T
           end
  end.

Definition potential_caps_R : list R := map IZR potential_caps_Z.
Definition batt_cap_fn_R (fuel : nat) (E n V T : R) : fitres_R := ladder_R fuel potential_caps_R E n V T.

(* charging for n periods with the noise-free continuous kernel; `noise k` is the (unused, since
   noise_level = 0) draw of period k, `p0` the previous charging power (overwritten) *)
Definition l2_step_R (cap maxP ts pilot V T nz charge : R) : R :=
  L2_charge__current_charge (stateS (L2_charge cap charge 0 maxP 0 ts pilot V T nz)).

Fixpoint l2_run_R (n : nat) (cap maxP ts pilot V T : R) (noise : nat -> R) (charge : R) : R :=
  match n with
  | O => charge
  | S k => l2_run_R k cap maxP ts pilot V T (fun i => noise (S i))
                    (l2_step_R cap maxP ts pilot V T (noise O) charge)
  end.

Definition fit_max_power_R (V : R) : R := Fit_max_rate * V / 1000.
