(* Model/HeapQ.v — CPython's heapq (heappush / heappop / _siftdown / _siftup), re-implemented
   line by line on immutable lists.  Definitions only (proofs: Proofs/HeapQ.v).

   Reference: Lib/heapq.py (the C accelerator _heapq performs the same comparisons and the
   same moves).  `heap[i]` is `nth i heap d`, `heap[i] = x` is `upd i x heap`; the `while`
   loops are structural recursions on a fuel argument that is large enough for every call made
   by heappush/heappop (proved: the out-of-fuel branch is only reached when the loop test is
   false anyway).  `lt` is Python's `<` on the heap items; nothing else about the items is used. *)
From Coq Require Import List Arith Bool.
From ACN Require Import Base.ListX.
Import ListNotations.

Section HeapQ.
  Variable A : Type.
  Variable lt : A -> A -> bool.      (* item_a < item_b *)
  Variable d : A.                    (* value of an out-of-range read; never reached (Proofs/HeapQ.v) *)

  (* def _siftdown(heap, startpos, pos):
         newitem = heap[pos]
         while pos > startpos:
             parentpos = (pos - 1) >> 1
             parent = heap[parentpos]
             if newitem < parent:
                 heap[pos] = parent
                 pos = parentpos
                 continue
             break
         heap[pos] = newitem                                                              *)
  Fixpoint siftdown_loop (fuel : nat) (heap : list A) (newitem : A) (startpos pos : nat) : list A :=
    match fuel with
    | O => upd pos newitem heap
    | S fuel' =>
      if startpos <? pos then
        let parentpos := (pos - 1) / 2 in
        let parent := nth parentpos heap d in
        if lt newitem parent
        then siftdown_loop fuel' (upd pos parent heap) newitem startpos parentpos
        else upd pos newitem heap
      else upd pos newitem heap
    end.

  Definition siftdown (heap : list A) (startpos pos : nat) : list A :=
    let newitem := nth pos heap d in
    siftdown_loop pos heap newitem startpos pos.

  (* def _siftup(heap, pos):
         endpos = len(heap)
         startpos = pos
         newitem = heap[pos]
         childpos = 2*pos + 1
         while childpos < endpos:
             rightpos = childpos + 1
             if rightpos < endpos and not heap[childpos] < heap[rightpos]:
                 childpos = rightpos
             heap[pos] = heap[childpos]
             pos = childpos
             childpos = 2*pos + 1
         heap[pos] = newitem
         _siftdown(heap, startpos, pos)                                                   *)
  Fixpoint siftup_loop (fuel : nat) (heap : list A) (endpos pos childpos : nat) : list A * nat :=
    match fuel with
    | O => (heap, pos)
    | S fuel' =>
      if childpos <? endpos then
        let rightpos := childpos + 1 in
        let childpos1 :=
          if (rightpos <? endpos) && negb (lt (nth childpos heap d) (nth rightpos heap d))
          then rightpos else childpos in
        siftup_loop fuel' (upd pos (nth childpos1 heap d) heap) endpos childpos1 (2 * childpos1 + 1)
      else (heap, pos)
    end.

  Definition siftup (heap : list A) (pos : nat) : list A :=
    let endpos := length heap in
    let startpos := pos in
    let newitem := nth pos heap d in
    let '(heap1, pos1) := siftup_loop endpos heap endpos pos (2 * pos + 1) in
    siftdown (upd pos1 newitem heap1) startpos pos1.

  (* def heappush(heap, item):
         heap.append(item)
         _siftdown(heap, 0, len(heap)-1)                                                  *)
  Definition heappush (heap : list A) (item : A) : list A :=
    let heap1 := heap ++ [item] in
    siftdown heap1 0 (length heap1 - 1).

  (* def heappop(heap):
         lastelt = heap.pop()    # raises IndexError if heap is empty
         if heap:
             returnitem = heap[0]
             heap[0] = lastelt
             _siftup(heap, 0)
             return returnitem
         return lastelt
     None = IndexError (the list is left unchanged).                                      *)
  Definition heappop (heap : list A) : option (A * list A) :=
    match heap with
    | [] => None
    | _ :: _ =>
      let lastelt := last heap d in
      let heap1 := removelast heap in
      match heap1 with
      | [] => Some (lastelt, [])
      | returnitem :: _ => Some (returnitem, siftup (upd 0 lastelt heap1) 0)
      end
    end.
End HeapQ.

Arguments siftdown_loop {A}.
Arguments siftdown {A}.
Arguments siftup_loop {A}.
Arguments siftup {A}.
Arguments heappush {A}.
Arguments heappop {A}.
