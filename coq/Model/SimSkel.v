(* Model/SimSkel.v — the discrete skeleton of acnportal.acnsim.Simulator.run (C01, C05).
   Definitions only.  Everything that could be translated is *called* from the regenerated files
   Gen/SimParams.v (event precedences / type codes), Gen/Sim_Z.v (tuple order of heap entries via
   Event.__lt__, the get_current_events guard, the run() loop guard, the recompute condition, the
   scheduling block, the tail of the loop body, _process_event and ChargingNetwork.plugin/unplug with
   their collaborator calls recorded as effects) and Gen/EvseZ_Z.v (BaseEVSE.plugin/unplug).
   Hand-written: the pending queue (a list kept sorted by stable insertion — CPython's heapq is
   proved separately in C11; only the order inside groups of equal (timestamp, precedence) can differ),
   the station -> occupant map, the interpretation of the effects, the logs.
   The numeric layer (pilot matrix, EV energies, peak) and the scheduler are parameters. *)
From Coq Require Import ZArith QArith List Bool String.
From ACN Require Import Base.Num Gen.SimParams Gen.Sim_Z Gen.EvseZ_Z.
Import ListNotations.
Open Scope string_scope.
Open Scope Z_scope.

(* ------------------------------------------------------------------------------------------ *)
(* sessions and events                                                                        *)
(* ------------------------------------------------------------------------------------------ *)
Record session := mkSession {
  sid : Z;              (* session_id (encoded as a number by the harness) *)
  s_station : Z;        (* station_id *)
  s_arrival : Z;
  s_departure : Z;
  s_est : Z;            (* estimated_departure *)
  s_req : Q;            (* requested_energy [kWh] *)
  s_cap : Q;            (* battery capacity, initial charge, max power (ideal Battery) *)
  s_init : Q;
  s_maxp : Q }.

(* A session is identified by (session id, station id): ChargingNetwork.unplug looks the EV up by
   station and compares the session id, so two sessions may share an id as long as they use
   different stations (ids numbered per station, merged batches). *)
Definition skey (x : session) : Z * Z := (sid x, s_station x).
Definition key_eqb (a b : Z * Z) : bool := Z.eqb (fst a) (fst b) && Z.eqb (snd a) (snd b).

Inductive event :=
| EPlugin (ts : Z) (x : session)
| EUnplug (ts : Z) (x : session)
| ERecompute (ts : Z)
(* any other queue entry: a bare acnsim.Event or a user-defined Event subclass, with its own precedence;
   `code` = the number of its event_type LABEL under the enumeration of tools/anchors.d/sim.py —
   _process_event dispatches on the label, so an entry labelled "Recompute" (code 2) requests a resolve,
   any unknown label is ignored; float('inf') precedence is encoded as a large integer *)
| EOther (ts : Z) (prec : Z) (code : Z).

Definition ev_ts (e : event) : Z :=
  match e with EPlugin t _ => t | EUnplug t _ => t | ERecompute t => t | EOther t _ _ => t end.
Definition ev_prec (e : event) : Z :=
  match e with
  | EPlugin _ _ => PluginEvent_precedence
  | EUnplug _ _ => UnplugEvent_precedence
  | ERecompute _ => RecomputeEvent_precedence
  | EOther _ p _ => p
  end.
Definition ev_code (e : event) : Z :=
  match e with
  | EPlugin _ _ => PluginEvent_event_type_code
  | EUnplug _ _ => UnplugEvent_event_type_code
  | ERecompute _ => RecomputeEvent_event_type_code
  | EOther _ _ c => c
  end.
Definition ev_session (e : event) : option session :=
  match e with EPlugin _ x => Some x | EUnplug _ x => Some x | ERecompute _ => None | EOther _ _ _ => None end.

(* Heap entries are tuples (event.timestamp, event).  Python compares tuples lexicographically:
   first the timestamps; for equal timestamps the events (distinct objects, so never `==`) with
   Event.__lt__. *)
Definition entry_lt (a b : event) : bool :=
  Z.ltb (ev_ts a) (ev_ts b) || (Z.eqb (ev_ts a) (ev_ts b) && Event_lt (ev_prec a) (ev_prec b)).

(* pending queue: sorted list, stable insertion (an entry goes after every entry that is not
   greater than it) *)
Fixpoint q_insert (e : event) (q : list event) : list event :=
  match q with
  | [] => [e]
  | h :: r => if entry_lt e h then e :: q else h :: q_insert e r
  end.

Definition q_of_list (evs : list event) : list event :=
  fold_left (fun q e => q_insert e q) evs [].

(* EventQueue.get_current_events(t): pop while `not self.empty() and self._queue[0][0] <= t` *)
Fixpoint q_pop_current (t : Z) (q : list event) : list event * list event :=
  match q with
  | [] => ([], [])
  | h :: r =>
      if EventQueue_current_guard (ev_ts h) t false
      then let '(c, r') := q_pop_current t r in (h :: c, r')
      else ([], q)
  end.

Definition q_empty (q : list event) : bool := match q with [] => true | _ => false end.

(* ------------------------------------------------------------------------------------------ *)
(* the network: which session occupies which station                                          *)
(* ------------------------------------------------------------------------------------------ *)
Definition occupancy := list (Z * session).

Definition occ_get (s : Z) (o : occupancy) : option session :=
  match find (fun p => Z.eqb (fst p) s) o with Some p => Some (snd p) | None => None end.
Definition occ_remove (s : Z) (o : occupancy) : occupancy :=
  filter (fun p => negb (Z.eqb (fst p) s)) o.
Definition occ_set (s : Z) (x : session) (o : occupancy) : occupancy := (s, x) :: occ_remove s o.

(* new value of an EVSE's _ev attribute (a session id) -> occupancy *)
Definition occ_apply_ev (s : Z) (x : session) (o : occupancy) (new_ev : option Z) : occupancy :=
  match new_ev with
  | None => occ_remove s o
  | Some i => if Z.eqb i (sid x) then occ_set s x o else o
  end.

Definition zmem (s : Z) (l : list Z) : bool := existsb (Z.eqb s) l.

(* interpretation of a list of recorded collaborator calls; stops at the first one that raises *)
Fixpoint run_effects {A} (interp : string * list Z -> A -> resS A)
         (effs : list (string * list Z)) (a : A) : resS A :=
  match effs with
  | [] => OkS a
  | f :: r => match interp f a with
              | OkS a' => run_effects interp r a'
              | ErrS e a' => ErrS e a'
              end
  end.

Definition model_error {A} (what : string) (a : A) : resS A := ErrS ("ModelError:" ++ what) a.

Section Network.
  Variable stations : list Z.           (* registered station ids, in registration order *)

  (* ChargingNetwork.plugin(ev) *)
  Definition net_plugin (x : session) (o : occupancy) : resS occupancy :=
    let r := ChargingNetwork_plugin (zmem (s_station x) stations) (sid x) None in
    let interp (f : string * list Z) (o : occupancy) : resS occupancy :=
      if String.eqb (fst f) "self._EVSEs[ev.station_id].plugin" then
        let p := BaseEVSE_plugin (option_map sid (occ_get (s_station x) o)) (sid x) in
        let o' := occ_apply_ev (s_station x) x o (BaseEVSE_plugin__ev (stateS p)) in
        match p with OkS _ => OkS o' | ErrS e _ => ErrS e o' end
      else model_error "net_plugin" o in
    match run_effects interp (ChargingNetwork_plugin_effects (stateS r)) o with
    | OkS o' => match r with OkS _ => OkS o' | ErrS e _ => ErrS e o' end
    | ErrS e o' => ErrS e o'
    end.

  (* ChargingNetwork.unplug(station_id, session_id) *)
  Definition net_unplug (s : Z) (session_id : Z) (o : occupancy) : resS occupancy :=
    let oc := occ_get s o in
    let r := ChargingNetwork_unplug (option_map sid oc) (match oc with Some y => sid y | None => 0 end)
                                    (zmem s stations) (Some session_id) in
    let interp (f : string * list Z) (o : occupancy) : resS occupancy :=
      if String.eqb (fst f) "self._EVSEs[station_id].unplug" then
        match BaseEVSE_unplug__ev BaseEVSE_unplug with
        | None => OkS (occ_remove s o)
        | Some _ => OkS o
        end
      else model_error "net_unplug" o in
    match run_effects interp (ChargingNetwork_unplug_effects (stateS r)) o with
    | OkS o' => match r with OkS _ => OkS o' | ErrS e _ => ErrS e o' end
    | ErrS e o' => ErrS e o'
    end.
End Network.

(* ------------------------------------------------------------------------------------------ *)
(* the simulator                                                                              *)
(* ------------------------------------------------------------------------------------------ *)
Inductive outcome (A : Type) : Type :=
| Done (a : A)                    (* run() returned *)
| Raised (e : string) (a : A)     (* run() raised e; a = state at the raise *)
| OutOfFuel (a : A).              (* never happens for the fuel computed from the input: C01_terminates *)
Arguments Done {A} a.
Arguments Raised {A} e a.
Arguments OutOfFuel {A} a.

Section Skel.
  Variables N V Sch : Type.               (* numeric state, scheduler view, schedule *)
  Variable stations : list Z.
  Variable maxrec : option Z.             (* scheduler.max_recompute *)
  (* the numeric layer (SimIface.v gives the concrete one) *)
  Variable num_view : Z -> occupancy -> N -> res V.      (* what the Interface shows at period t; may raise *)
  Variable num_apply : Z -> N -> Sch -> res N.           (* _update_schedules *)
  Variable num_charge : Z -> occupancy -> N -> res N.    (* network.update_pilots(pilot_signals, t, period) *)
  Variable num_store : Z -> occupancy -> N -> N.         (* _store_actual_charging_rates *)
  (* the scheduling algorithm, as an arbitrary non-raising function of what it is shown *)
  Variable sched : V -> Sch.

  Record state := mkState {
    iter : Z;                                  (* _iteration *)
    resolve : bool;                            (* _resolve *)
    last_upd : option Z;                       (* _last_schedule_update *)
    queue : list event;                        (* event_queue *)
    occ : occupancy;                           (* network: EVSE -> connected EV *)
    ev_hist : list (Z * session);              (* ev_history *)
    hist : list (Z * event);                   (* event_history, oldest first; ghost: period of processing *)
    calls : list (Z * V);                      (* ghost: scheduler invocations (period, view), oldest first *)
    occ_log : list (Z * occupancy);            (* ghost: occupancy seen by post_charging_update in each period *)
    num : N }.

  Definition set_queue (st : state) (q : list event) : state :=
    mkState (iter st) (resolve st) (last_upd st) q (occ st) (ev_hist st) (hist st) (calls st) (occ_log st) (num st).
  Definition set_occ (st : state) (o : occupancy) : state :=
    mkState (iter st) (resolve st) (last_upd st) (queue st) o (ev_hist st) (hist st) (calls st) (occ_log st) (num st).
  Definition set_ev_hist (st : state) (h : list (Z * session)) : state :=
    mkState (iter st) (resolve st) (last_upd st) (queue st) (occ st) h (hist st) (calls st) (occ_log st) (num st).
  Definition set_flags (st : state) (r : bool) (l : option Z) : state :=
    mkState (iter st) r l (queue st) (occ st) (ev_hist st) (hist st) (calls st) (occ_log st) (num st).
  Definition set_num (st : state) (n : N) : state :=
    mkState (iter st) (resolve st) (last_upd st) (queue st) (occ st) (ev_hist st) (hist st) (calls st) (occ_log st) n.
  Definition set_iter (st : state) (i : Z) : state :=
    mkState i (resolve st) (last_upd st) (queue st) (occ st) (ev_hist st) (hist st) (calls st) (occ_log st) (num st).
  Definition log_event (st : state) (e : event) : state :=
    mkState (iter st) (resolve st) (last_upd st) (queue st) (occ st) (ev_hist st)
            (hist st ++ [(iter st, e)]) (calls st) (occ_log st) (num st).
  Definition log_call (st : state) (v : V) : state :=
    mkState (iter st) (resolve st) (last_upd st) (queue st) (occ st) (ev_hist st) (hist st)
            (calls st ++ [(iter st, v)]) (occ_log st) (num st).
  Definition log_occ (st : state) : state :=
    mkState (iter st) (resolve st) (last_upd st) (queue st) (occ st) (ev_hist st) (hist st) (calls st)
            (occ_log st ++ [(iter st, occ st)]) (num st).

  Definition lift_occ (st : state) (r : resS occupancy) : resS state :=
    match r with OkS o => OkS (set_occ st o) | ErrS e o => ErrS e (set_occ st o) end.

  (* collaborator calls issued by _process_event(e), in the order recorded by the translation *)
  Definition interp_event (e : event) (f : string * list Z) (st : state) : resS state :=
    match ev_session e with
    | None => model_error "event without EV" st
    | Some x =>
        if String.eqb (fst f) "self.network.plugin" then
          lift_occ st (net_plugin stations x (occ st))
        else if String.eqb (fst f) "self.ev_history[]=" then
          OkS (set_ev_hist st ((sid x, x) :: filter (fun p => negb (Z.eqb (fst p) (sid x))) (ev_hist st)))
        else if String.eqb (fst f) "self.event_queue.add_event:UnplugEvent" then
          OkS (set_queue st (q_insert (EUnplug (nth 0 (snd f) 0) x) (queue st)))
        else if String.eqb (fst f) "self.network.unplug" then
          lift_occ st (net_unplug stations (nth 0 (snd f) 0) (nth 1 (snd f) 0) (occ st))
        else model_error "interp_event" st
    end.

  (* Simulator._process_event(e) *)
  Definition process_event (st : state) (e : event) : resS state :=
    let x := ev_session e in
    let g (f : session -> Z) := match x with Some x => f x | None => 0 end in
    let r := Simulator_process_event (last_upd st) (resolve st) (g sid) (g s_departure) (g sid) (g s_station)
                                     (ev_code e) (ev_ts e) in
    match run_effects (interp_event e) (Simulator_process_event_effects r) st with
    | OkS st' => OkS (set_flags st' (Simulator_process_event__resolve r)
                                (Simulator_process_event__last_schedule_update r))
    | ErrS ex st' => ErrS ex st'
    end.

  (* for e in current_events: self.event_history.append(e); self._process_event(e) *)
  Fixpoint process_all (cur : list event) (st : state) : resS state :=
    match cur with
    | [] => OkS st
    | e :: r => match process_event (log_event st e) e with
                | OkS st' => process_all r st'
                | ErrS ex st' => ErrS ex st'
                end
    end.

  Definition events_phase (st : state) : resS state :=
    let '(cur, rest) := q_pop_current (iter st) (queue st) in
    process_all cur (set_queue st rest).

  (* `if <recompute condition>:` scheduler.run(); _update_schedules(...); bookkeeping *)
  Definition interp_schedule (s : Sch) (f : string * list Z) (st : state) : resS state :=
    if String.eqb (fst f) "self._update_schedules" then
      match num_apply (iter st) (num st) s with
      | Ok n => OkS (set_num st n)
      | Err e => ErrS e st
      end
    else model_error "interp_schedule" st.

  (* The `if <recompute condition>:` block is translated in three consecutive pieces (Gen/Sim_Z.v):
       pre  : written before the scheduler is called  (`self._resolve = True`)
       mid  : scheduler.run(); _update_schedules(...); schedule_history   — collaborator calls only
       post : `_last_schedule_update = _iteration; _resolve = False` once the schedule is applied.
     The exact-arity patterns below make this file stop compiling if `pre` writes anything but _resolve
     or `mid` writes any attribute; `post` must provide both fields. *)
  Definition schedule_pre_resolve : bool :=
    let '(Build_Simulator_schedule_pre_out _ r) := Simulator_schedule_pre in r.
  Definition schedule_mid_effects (t : Z) : list (string * list Z) :=
    let '(Build_Simulator_schedule_mid_out _ effs) := Simulator_schedule_mid t None 0 in effs.
                                                       (* store_schedule_history = False *)

  (* a resolve stays pending while the scheduler runs *)
  Definition before_schedule (st : state) : state := set_flags st schedule_pre_resolve (last_upd st).

  (* what happens once the scheduler, shown view v, has returned schedule s.  This definition does
     not mention `sched`: the simulator's next state depends on the scheduler only through s. *)
  Definition apply_schedule (st : state) (v : V) (s : Sch) : resS state :=
    let st1 := log_call st v in
    match run_effects (interp_schedule s) (schedule_mid_effects (iter st)) st1 with
    | OkS st2 =>
        let post := Simulator_schedule_post (iter st) in
        OkS (set_flags st2 (Simulator_schedule_post__resolve post)
                       (Simulator_schedule_post__last_schedule_update post))
    | ErrS e st2 => ErrS e st2
    end.

  Definition sched_phase (st : state) : resS state :=
    if Simulator_recompute_cond (iter st) (last_upd st) (resolve st) maxrec then
      let st0 := before_schedule st in
      match num_view (iter st0) (occ st0) (num st0) with
      | Err e => ErrS e st0                        (* Interface.active_sessions() raised *)
      | Ok v => apply_schedule st0 v (sched v)
      end
    else OkS st.

  (* update_pilots; _store_actual_charging_rates; post_charging_update; _iteration += 1 *)
  Definition interp_tail (f : string * list Z) (st : state) : resS state :=
    if String.eqb (fst f) "self.network.update_pilots" then
      match num_charge (iter st) (occ st) (num st) with
      | Ok n => OkS (set_num st n)
      | Err e => ErrS e st
      end
    else if String.eqb (fst f) "self._store_actual_charging_rates" then
      OkS (set_num st (num_store (iter st) (occ st) (num st)))
    else if String.eqb (fst f) "self.network.post_charging_update" then
      OkS (log_occ st)
    else model_error "interp_tail" st.

  Definition tail_phase (st : state) : resS state :=
    let tl := Simulator_step_tail (iter st) 0 0 in
    match run_effects interp_tail (Simulator_step_tail_effects tl) st with
    | OkS st' => OkS (set_iter st' (Simulator_step_tail__iteration tl))
    | ErrS e st' => ErrS e st'
    end.

  Definition bindS (r : resS state) (f : state -> resS state) : resS state :=
    match r with OkS st => f st | ErrS e st => ErrS e st end.

  (* one iteration of the while loop *)
  Definition step (st : state) : resS state :=
    bindS (bindS (events_phase st) sched_phase) tail_phase.

  Definition loop_guard (st : state) : bool :=
    Simulator_run_guard (resolve st) (q_empty (queue st)).

  Fixpoint run (fuel : nat) (st : state) : outcome state :=
    match fuel with
    | O => OutOfFuel st
    | S f =>
        if loop_guard st then
          match step st with
          | OkS st' => run f st'
          | ErrS e st' => Raised e st'
          end
        else Done st
    end.

  Definition init (evs : list event) (n0 : N) : state :=
    mkState 0 false None (q_of_list evs) [] [] [] [] [] n0.
End Skel.

Arguments iter {N V}. Arguments resolve {N V}. Arguments last_upd {N V}. Arguments queue {N V}.
Arguments occ {N V}. Arguments ev_hist {N V}. Arguments hist {N V}. Arguments calls {N V}.
Arguments occ_log {N V}. Arguments num {N V}.

(* fuel that always suffices for valid inputs: 2 + the largest timestamp / departure in the input *)
Definition ev_horizon (e : event) : Z :=
  match e with
  | EPlugin t x => Z.max t (s_departure x)
  | EUnplug t x => Z.max t (s_departure x)
  | ERecompute t => t
  | EOther t _ _ => t
  end.
(* an event on which _process_event dispatches (sets _resolve) *)
Definition resolving (e : event) : bool :=
  Z.eqb (ev_code e) 0 || Z.eqb (ev_code e) 1 || Z.eqb (ev_code e) 2.

Definition max_ts (evs : list event) : Z := fold_right (fun e m => Z.max (ev_horizon e) m) 0 evs.
Definition fuel_of (evs : list event) : nat := Z.to_nat (max_ts evs + 2).

Definition sessions_of (evs : list event) : list session :=
  flat_map (fun e => match e with EPlugin _ x => [x] | _ => [] end) evs.
