(* Model/StochNetGen.v — the same three network methods, but DRIVEN BY the control skeletons
   regenerated from stochastic_network.py / charging_network.py (Gen/StochNet_Z.v): the generated
   functions decide which path is taken, what the counters become and which state-changing calls
   happen in which order ("effects"); this file only says what each such call does to the state.
   Proofs/StochNetGen.v proves gen_plugin = net_plugin, gen_unplug = net_unplug, gen_post =
   net_post for all states and arguments, so the theorems about Model/StochNet.v are theorems
   about the interpretation of the code's current control skeleton.  Definitions only. *)
From Coq Require Import ZArith List Bool String Arith.
From ACN Require Import Base.Num Gen.EvseZ_Z Gen.StochNet_Z Model.StochNet.
Import ListNotations.
Open Scope Z_scope.
Open Scope list_scope.

Definition eff := (string * list Z)%type.
Definition tag_is (f : eff) (s : string) : bool := String.eqb (fst f) s.
Definition arg0 (f : eff) : Z := nth 0 (snd f) 0.

(* available_evses with the generated filter *)
Definition gen_available (l : list (Z * option Z)) : list Z :=
  map fst (filter (fun p => SN_available_filter (snd p)) l).

(* ChargingNetwork.plugin(ev) *)
Definition gen_base_plugin (st : net) (y : Z) : res net :=
  let sid := ev_station st y in
  let slot := match sid with Some s => zassoc s (evses st) | None => None end in
  let known := match slot with Some _ => true | None => false end in
  match CN_plugin known y None with
  | ErrS m _ => Err m
  | OkS o =>
      fold_left (fun acc f =>
        match acc with
        | Err m => Err m
        | Ok st1 =>
            if tag_is f "self._EVSEs[ev.station_id].plugin" then
              match sid, slot with
              | Some s, Some occ =>
                  match BaseEVSE_plugin occ (arg0 f) with
                  | OkS r => Ok (set_evses st1 (set_occ s (BaseEVSE_plugin__ev r) (evses st1)))
                  | ErrS m _ => Err m
                  end
              | _, _ => Err "KeyError"
              end
            else Err "unknown effect"
        end) (CN_plugin_effects o) (Ok st)
  end.

(* StochasticNetwork.plugin(ev) *)
Definition plugin_effect (x : Z) (acc : res net) (f : eff) : res net :=
  match acc with
  | Err m => Err m
  | Ok st =>
      if tag_is f "ev.update_station_id" then Ok (update_station_id st x (Some (arg0 f)))
      else if tag_is f "ev.update_station_id(None)" then Ok (update_station_id st x None)
      else if tag_is f "super().plugin" then gen_base_plugin st (arg0 f)
      else if tag_is f "waiting_queue.setitem" then
        Ok (if zmem (arg0 f) (queue st) then st else set_queue st (queue st ++ [arg0 f]))
      else if tag_is f "self.waiting_queue.move_to_end" then
        Ok (set_queue st (zremove (arg0 f) (queue st) ++ [arg0 f]))
      else Err "unknown effect"
  end.

Definition gen_plugin (ch : nat -> nat) (st : net) (x : Z) : res net :=
  let av := gen_available (evses st) in
  let n := Z.of_nat (List.length av) in
  let chosen := nth (Nat.modulo (ch (draws st)) (List.length av)) av 0 in     (* random.choice(available_spots) *)
  let st0 := if (0 <? n) then set_draws st (S (draws st)) else st in         (* harness bookkeeping: one draw *)
  fold_left (plugin_effect x) (SN_plugin_effects (SN_plugin x x None av chosen n)) (Ok st0).

(* StochasticNetwork.unplug(station_id, session_id) *)
Definition unplug_effect (s x nxt : Z) (acc : res net) (f : eff) : res net :=
  match acc with
  | Err m => Err m
  | Ok st =>
      if tag_is f "waiting_queue.del" then
        Ok (set_gone (set_queue st (zremove (arg0 f) (queue st))) (arg0 f :: gone st))
      else if tag_is f "self._EVSEs[station_id].unplug" then
        Ok (set_gone (set_evses st (set_occ s (BaseEVSE_unplug__ev BaseEVSE_unplug) (evses st))) (x :: gone st))
      else if tag_is f "waiting_queue.popitem(last=False)" then Ok (set_queue st (tl (queue st)))
      else if tag_is f "next_ev.update_station_id" then Ok (update_station_id st nxt (Some (arg0 f)))
      else if tag_is f "super().plugin" then gen_base_plugin st (arg0 f)
      else Err "unknown effect"
  end.

Definition gen_unplug (st : net) (sid : option Z) (x : Z) : res net :=
  let slot := match sid with Some s => zassoc s (evses st) | None => None end in
  let known := match slot with Some _ => true | None => false end in
  let occ := match slot with Some o => o | None => None end in
  let occ_session := match occ with Some y => y | None => 0 end in
  let s0 := match sid with Some s => s | None => 0 end in
  let nxt := hd 0 (queue st) in                       (* what popitem(last=False) will return *)
  match SN_unplug occ occ_session (never_charged st) (swaps st) nxt (zmem x (queue st)) false known
                  s0 x (Z.of_nat (List.length (queue st))) with
  | ErrS m _ => Err m
  | OkS o =>
      match fold_left (unplug_effect s0 x nxt) (SN_unplug_effects o) (Ok st) with
      | Ok st1 => Ok (set_swaps (set_never_charged st1 (SN_unplug_never_charged o)) (SN_unplug_swaps o))
      | Err m => Err m
      end
  end.

(* StochasticNetwork.post_charging_update() *)
Definition gen_post_one (acc : res net) (y : Z) : res net :=
  match acc with
  | Err m => Err m
  | Ok st =>
      let sid := ev_station st y in
      let o := SN_post_body (early_unplug st) y (match sid with Some s => s | None => 0 end)
                            (Z.of_nat (List.length (queue st))) in
      match fold_left (fun acc f =>
              match acc with
              | Err m => Err m
              | Ok st1 => if tag_is f "self.unplug" then gen_unplug st1 sid (nth 1 (snd f) 0)
                          else Err "unknown effect"
              end) (SN_post_body_effects o) (Ok st) with
      | Ok st1 => Ok (set_early_unplug st1 (SN_post_body_early_unplug o))
      | Err m => Err m
      end
  end.

Definition gen_post (st : net) (full : list Z) : res net :=
  if SN_post_enabled (early st) then
    let fully_charged_evs :=
      flat_map (fun p => if SN_post_selected (snd p) (match snd p with Some y => zmem y full | None => false end)
                         then match snd p with Some y => [y] | None => [] end else [])
               (evses st) in
    fold_left gen_post_one fully_charged_evs (Ok st)
  else Ok st.

Definition gen_step (ch : nat -> nat) (st : net) (e : event) : res net :=
  match e with
  | Arrive x => gen_plugin ch st x
  | Depart x => gen_unplug st (ev_station st x) x
  | PostCharge full => gen_post st full
  end.
