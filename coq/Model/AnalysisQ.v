(* Model/AnalysisQ.v — executable (Q) instance of the analysis model with the scalar kernels
   regenerated from analysis/__init__.py (Gen/Analysis_Q.v) and ev.py (EV_remaining_demand), and the
   correspondence case of C18.  Definitions only. *)
From Coq Require Import ZArith QArith Qminmax Qabs Qround List Bool.
From ACN Require Import Base.Num Base.ListX Gen.Analysis_Q Gen.Battery_Q Model.Ledger Model.LedgerQ Model.Analysis.
Import ListNotations.
Open Scope Q_scope.

Definition QA : akern Q :=
  {| a_power_scale := An_power_scale;
     a_abs_applied := An_abs_applied;
     a_proportion := An_proportion;
     a_remaining := EV_remaining_demand;
     a_demand_met := An_demand_met;
     a_demands_ratio := An_demands_ratio;
     a_nema := An_nema;
     a_minutes := An_minutes;
     a_energy_cost := An_energy_cost;
     a_demand_charge := An_demand_charge |}.

Record c18case := {
  c_traj : traj (F:=Q);
  (* recorded from the implementation *)
  i_agg_current : list Q;
  i_agg_power : list Q;
  (* constraint_currents(sim, return_magnitudes=flag, constraint_ids=ids) -> items of the returned dict *)
  i_cc : list (bool * option (list Z) * option (list (Z * series (F:=Q))));   (* None = raises *)
  i_requested : Q; i_delivered : Q; i_proportion : option Q;
  i_met : list (Q * option Q);                      (* threshold -> proportion_of_demands_met *)
  i_nema : list (list Z * option (list (option Q))); (* phase ids -> current_unbalance (None = raises; inner None = nan) *)
  i_minutes : list Q;                                (* (datetimes_array - start) in minutes *)
  i_costs : list (list Q * Q * Q * Q)                (* prices, demand-charge rate of the applicable tariff -> energy_cost, demand_charge *)
}.

Definition Qlist_close (a b : list Q) : bool := list_eqb Qclose a b.
Definition series_close (a b : series (F:=Q)) : bool :=
  match a, b with
  | Mag x, Mag y => Qlist_close x y
  | Cplx xr xi, Cplx yr yi => Qlist_close xr yr && Qlist_close xi yi
  | _, _ => false
  end.
Definition dict_close (a b : list (Z * series (F:=Q))) : bool :=
  list_eqb (fun x y => Z.eqb (fst x) (fst y) && series_close (snd x) (snd y)) a b.
Definition oQ_close (a b : option Q) : bool := option_eqb Qclose a b.

Definition check_c18 (c : c18case) : bool :=
  let tr := c_traj c in
  Qlist_close (aggregate_current QO tr) (i_agg_current c)
  && Qlist_close (aggregate_power QO QA tr) (i_agg_power c)
  (* the implementation-shaped model against the implementation *)
  && forallb (fun r => let '(flag, ids, out) := r in option_eqb dict_close (constraint_currents_call QO QA tr flag ids) out) (i_cc c)
  && Qclose (total_energy_requested QO tr) (i_requested c)
  && Qclose (total_energy_delivered QO tr) (i_delivered c)
  && oQ_close (proportion_of_energy_delivered QO QA tr) (i_proportion c)
  && forallb (fun r => oQ_close (proportion_of_demands_met QO QA tr (fst r)) (snd r)) (i_met c)
  && forallb (fun r => option_eqb (list_eqb oQ_close) (current_unbalance_call QO QA tr (fst r)) (snd r)) (i_nema c)
  && Qlist_close (datetimes_minutes QO QA tr) (i_minutes c)
  (* the SPEC evaluated by the model against the implementation-shaped model (both in Coq) *)
  && Qlist_close (map (aggregate_current_spec QO tr) (periods tr)) (aggregate_current QO tr)
  && Qlist_close (map (aggregate_power_spec QO tr) (periods tr)) (aggregate_power QO QA tr).

(* used by Example C18_example_exec: |16 + 8i| is returned for constraint 10 in period 0 *)
Definition check_c18_example (tr : traj (F:=Q)) : bool :=
  match dict_get 10%Z (constraint_currents QO QA tr false None) with
  | Some (Mag (m :: _)) => Qclose_tol (1 # 1000000) m (17888544 # 1000000)
  | _ => false
  end.
