(* Model/Feasible.v — the three feasibility checkers of acnportal, written once over an
   abstract numeric carrier (record [Fops]) and instantiated with Q (executable, used by the
   correspondence check) and R (used by the theorems).  Definitions only.

     ChargingNetwork.constraint_current / is_feasible      (acnsim/network/charging_network.py)
     Interface.is_feasible / _infrastructure_info          (acnsim/interface.py)
     InfrastructureInfo._validate                          (acnsim/interface.py)
     algorithms.utils.infrastructure_constraints_feasible  (algorithms/utils.py)

   The tolerance expressions, the default tolerances and the comparison of the algorithm-side
   checker are the *generated* definitions of Gen/Feas_Q.v / Gen/Feas_R.v (fields g_* below).

   Conventions: a schedule is station-major, [X : list (list F)] (row i = station i) together
   with its number of periods [T] (numpy's shape[1]); a missing entry reads as 0 (numpy would
   refuse ragged input; the harness only produces rectangular matrices).  Trigonometry enters
   as data: station i carries the pair (cos, sin) of deg2rad(phase_angle i). *)
From Coq Require Import String ZArith QArith Qminmax Qabs Reals List Bool Arith.
From ACN Require Import Base.Num Base.NumR.
From ACN Require Gen.Feas_Q Gen.Feas_R.
Import ListNotations.

Record Fops := {
  F : Type;
  f0 : F;
  fadd : F -> F -> F;
  fmul : F -> F -> F;
  fabs : F -> F;
  fleb : F -> F -> bool;
  (* generated from ChargingNetwork.is_feasible *)
  g_net_rel_tol : F -> F -> F;            (* magnitudes, relative_tolerance *)
  g_net_rhs : F -> F -> F -> F;           (* magnitudes, rel_magnitude_tol, violation_tolerance *)
  g_net_default_vt : F;
  g_net_default_rt : F;
  (* generated from utils.infrastructure_constraints_feasible *)
  g_utils_tol : F -> F -> F -> F;         (* constraint_limits, violation_tolerance, relative_tolerance *)
  g_utils_tol_default : F -> F;           (* constraint_limits  (default tolerances inlined) *)
  g_utils_default_vt : F;
  g_utils_default_rt : F;
  g_utils_ok_linear : F -> F -> F -> bool (* constraint_limits[j], line_currents, tol[j] *)
}.

(* executable instance: exact rational arithmetic; sums are kept in lowest terms (Qred x == x)
   so that long dot products of float inputs stay small *)
Definition QF : Fops := {|
  F := Q; f0 := 0%Q; fadd := fun a b => Qred (Qplus a b); fmul := Qmult;
  fabs := Qabs; fleb := Qleb;
  g_net_rel_tol := Feas_Q.Net_rel_tol; g_net_rhs := Feas_Q.Net_rhs;
  g_net_default_vt := Feas_Q.Net_default_vt; g_net_default_rt := Feas_Q.Net_default_rt;
  g_utils_tol := Feas_Q.Utils_tol; g_utils_tol_default := Feas_Q.Utils_tol_default;
  g_utils_default_vt := Feas_Q.Utils_default_vt; g_utils_default_rt := Feas_Q.Utils_default_rt;
  g_utils_ok_linear := Feas_Q.Utils_ok_linear |}.

Definition RF : Fops := {|
  F := R; f0 := 0%R; fadd := Rplus; fmul := Rmult; fabs := Rabs; fleb := Rleb;
  g_net_rel_tol := Feas_R.Net_rel_tol; g_net_rhs := Feas_R.Net_rhs;
  g_net_default_vt := Feas_R.Net_default_vt; g_net_default_rt := Feas_R.Net_default_rt;
  g_utils_tol := Feas_R.Utils_tol; g_utils_tol_default := Feas_R.Utils_tol_default;
  g_utils_default_vt := Feas_R.Utils_default_vt; g_utils_default_rt := Feas_R.Utils_default_rt;
  g_utils_ok_linear := Feas_R.Utils_ok_linear |}.

Fixpoint zipw {A B C} (f : A -> B -> C) (a : list A) (b : list B) : list C :=
  match a, b with
  | x :: a', y :: b' => f x y :: zipw f a' b'
  | _, _ => []
  end.

Fixpoint nassoc {A} (k : nat) (l : list (nat * A)) : option A :=
  match l with
  | [] => None
  | (k', v) :: r => if Nat.eqb k k' then Some v else nassoc k r
  end.

Section Generic.
  Variable K : Fops.
  Notation F := (F K).
  Notation fz := (f0 K).
  Infix "+" := (fadd K).
  Infix "*" := (fmul K).

  (* ---------------------------------------------------------------- linear algebra on lists *)
  Fixpoint dot (a x : list F) : F :=
    match a, x with
    | ai :: a', xi :: x' => ai * xi + dot a' x'
    | _, _ => fz
    end.
  Definition vmul (a w : list F) : list F := zipw (fmul K) a w.
  (* column t of a station-major matrix *)
  Definition col (t : nat) (X : list (list F)) : list F := map (fun r => nth t r fz) X.
  (* (schedule_matrix.T * w).T : row i multiplied by w_i *)
  Definition scale_rows (X : list (list F)) (w : list F) : list (list F) :=
    zipw (fun r wi => map (fun x => x * wi) r) X w.

  (* |z| <= rhs for z = re + i im, decided without a square root *)
  Definition mag_le (z : F * F) (rhs : F) : bool :=
    fleb K fz rhs && fleb K (fst z * fst z + snd z * snd z) (rhs * rhs).

  (* ---------------------------------------------------------------- ChargingNetwork *)
  Record network := {
    n_matrix : option (list (list F));   (* constraint_matrix; None until the first add_constraint *)
    n_limits : list F;                    (* magnitudes *)
    n_cis : list (F * F);                 (* per station: (cos, sin) of deg2rad(_phase_angles[i]) *)
    n_vt : F;                             (* violation_tolerance *)
    n_rt : F                              (* relative_tolerance *)
  }.
  Definition n_stations (n : network) : nat := length (n_cis n).
  Definition n_rows (n : network) : list (list F) :=
    match n_matrix n with None => [] | Some A => A end.

  (* constraint_current(schedule, linear): one row of complex numbers (re, im) per constraint.
       linear:      (np.abs(A) @ X).astype(complex)
       otherwise:   A @ ((X.T * exp(1j*deg2rad(phases))).T)                                   *)
  Definition constraint_current (n : network) (X : list (list F)) (T : nat) (linear : bool)
    : list (list (F * F)) :=
    if linear then
      map (fun a => map (fun t => (dot (map (fabs K) a) (col t X), fz)) (seq 0 T)) (n_rows n)
    else
      let XR := scale_rows X (map fst (n_cis n)) in
      let XI := scale_rows X (map snd (n_cis n)) in
      map (fun a => map (fun t => (dot a (col t XR), dot a (col t XI))) (seq 0 T)) (n_rows n).

  Definition opt_or (o : option F) (d : F) : F := match o with None => d | Some v => v end.

  (* magnitudes + np.maximum(violation_tolerance, magnitudes * relative_tolerance), per constraint *)
  Definition net_rhs (vt rt : F) (L : F) : F := g_net_rhs K L (g_net_rel_tol K L rt) vt.

  Definition net_is_feasible (n : network) (X : list (list F)) (T : nat) (linear : bool)
             (ovt ort : option F) : bool :=
    let vt := opt_or ovt (n_vt n) in
    let rt := opt_or ort (n_rt n) in
    match n_limits n with
    | [] => true                                      (* if not len(self.magnitudes): return True *)
    | _ =>
        forallb (fun p => forallb (fun z => mag_le z (fst p)) (snd p))
                (combine (map (net_rhs vt rt) (n_limits n)) (constraint_current n X T linear))
    end.

  (* ---------------------------------------------------------------- Interface *)
  (* the {station: [rates]} mapping, stations encoded by their index in network.station_ids;
     ids unknown to the network are encoded by indices >= N (the code ignores them) *)
  Definition mapping := list (nat * list F).

  Definition dense (N T : nat) (m : mapping) : list (list F) :=
    map (fun i => match nassoc i m with Some r => r | None => repeat fz T end) (seq 0 N).

  Definition uniform_lengths (m : mapping) : bool :=
    match m with
    | [] => true
    | (_, r0) :: _ => forallb (fun kv => Nat.eqb (length (snd kv)) (length r0)) m
    end.
  Definition mapping_T (m : mapping) : nat :=
    match m with [] => O | (_, r0) :: _ => length r0 end.

  Definition iface_is_feasible (n : network) (m : mapping) (linear : bool) (ovt ort : option F)
    : res bool :=
    let vt := opt_or ovt (n_vt n) in               (* Interface._violation_tolerance *)
    let rt := opt_or ort (n_rt n) in
    match m with
    | [] => Ok true                                 (* if len(load_currents) == 0: return True *)
    | _ =>
        if uniform_lengths m then
          let T := mapping_T m in
          Ok (net_is_feasible n (dense (n_stations n) T m) T linear (Some vt) (Some rt))
        else Err "InvalidScheduleError"%string
    end.

  (* ---------------------------------------------------------------- InfrastructureInfo *)
  Record infra := {
    i_matrix : list (list F);      (* constraint_matrix (M rows) *)
    i_ncols : nat;                 (* constraint_matrix.shape[1] *)
    i_limits : list F;             (* constraint_limits *)
    i_cis : list (F * F)           (* (cos, sin) of deg2rad(phases) *)
  }.

  (* Interface._infrastructure_info followed by InfrastructureInfo._validate (shape checks):
     a network without constraints yields np.zeros((0, N)) *)
  Definition infrastructure_info (n : network) : res infra :=
    let N := n_stations n in
    let A := n_rows n in
    let ncols := match n_matrix n with
                 | None => N
                 | Some [] => N
                 | Some (r :: _) => length r
                 end in
    if Nat.eqb ncols N && forallb (fun r => Nat.eqb (length r) N) A
       && Nat.eqb (length A) (length (n_limits n))
    then Ok {| i_matrix := A; i_ncols := ncols; i_limits := n_limits n; i_cis := n_cis n |}
    else Err "ValueError"%string.

  (* ---------------------------------------------------------------- algorithms.utils *)
  Definition alg_row_ok (cis : list (F * F)) (X : list (list F)) (T : nat) (linear : bool)
             (a : list F) (L tol : F) : bool :=
    if linear then
      (* line_currents = np.abs(np.abs(v) @ rates) ; line_currents <= limits[j] + tol[j] *)
      forallb (fun t => g_utils_ok_linear K L (fabs K (dot (map (fabs K) a) (col t X))) tol) (seq 0 T)
    else
      (* a = [v*cos; v*sin]; norm(a @ rates, axis=0) <= limits[j] + tol[j] *)
      forallb (fun t => mag_le (dot (vmul a (map fst cis)) (col t X),
                                dot (vmul a (map snd cis)) (col t X)) (L + tol)) (seq 0 T).

  Definition alg_is_feasible_tol (tolf : F -> F) (inf : infra) (X : list (list F)) (T : nat)
             (linear : bool) : bool :=
    forallb (fun p => alg_row_ok (i_cis inf) X T linear (fst p) (snd p) (tolf (snd p)))
            (combine (i_matrix inf) (i_limits inf)).

  (* called with explicit tolerances *)
  Definition alg_is_feasible (inf : infra) (X : list (list F)) (T : nat) (linear : bool)
             (vt rt : F) : bool :=
    alg_is_feasible_tol (fun L => g_utils_tol K L vt rt) inf X T linear.
  (* called the way every algorithm calls it: default tolerances *)
  Definition alg_is_feasible_default (inf : infra) (X : list (list F)) (T : nat) (linear : bool)
    : bool :=
    alg_is_feasible_tol (g_utils_tol_default K) inf X T linear.

  Definition all_nonneg (X : list (list F)) : bool :=
    forallb (fun r => forallb (fun x => fleb K fz x) r) X.
End Generic.

Arguments n_matrix {K}. Arguments n_limits {K}. Arguments n_cis {K}. Arguments n_vt {K}.
Arguments n_rt {K}. Arguments i_matrix {K}. Arguments i_ncols {K}. Arguments i_limits {K}.
Arguments i_cis {K}.

(* ------------------------------------------------------------------ specification side (R) *)
(* sum_i a_i * X_it * w_i *)
Fixpoint wsum (a : list R) (X : list (list R)) (w : list R) (t : nat) : R :=
  match a, X, w with
  | ai :: a', r :: X', wi :: w' => (ai * nth t r 0 * wi + wsum a' X' w' t)%R
  | _, _, _ => 0%R
  end.
(* sum_i |a_i| * X_it *)
Fixpoint lsum (a : list R) (X : list (list R)) (t : nat) : R :=
  match a, X with
  | ai :: a', r :: X' => (Rabs ai * nth t r 0 + lsum a' X' t)%R
  | _, _ => 0%R
  end.
(* e^{i phi} for phi in degrees, as (cos, sin) *)
Definition cis_deg (p : R) : R * R := (cos (p * PI / 180), sin (p * PI / 180))%R.
(* real and imaginary part of  sum_i A_ji X_it e^{i phi_i} *)
Definition phasor_re (A X : list (list R)) (phi : list R) (j t : nat) : R :=
  wsum (nth j A []) X (map (fun p => cos (p * PI / 180)%R) phi) t.
Definition phasor_im (A X : list (list R)) (phi : list R) (j t : nat) : R :=
  wsum (nth j A []) X (map (fun p => sin (p * PI / 180)%R) phi) t.

(* ------------------------------------------------------------------ correspondence (Q) *)
Open Scope Q_scope.

Record c06case := {
  c_net : network QF;
  c_T : nat;
  c_X : list (list Q);               (* schedule_matrix given to the network / algorithm side *)
  c_map : list (nat * list Q);       (* mapping given to Interface.is_feasible *)
  c_linear : bool;
  c_ovt : option Q; c_ort : option Q; (* explicit tolerance arguments of the network / interface calls *)
  (* recorded from the implementation *)
  i_net : bool;                      (* ChargingNetwork.is_feasible(X, linear, ovt, ort) *)
  i_iface : option bool;             (* Interface.is_feasible(map, linear, ovt, ort); None = InvalidScheduleError *)
  i_alg_same : bool;                 (* utils...feasible(X, info, linear, effective vt, effective rt) *)
  i_alg_default : bool;              (* utils...feasible(X, info, linear) *)
  i_cur : list (list (Q * Q));       (* constraint_current(X, linear=linear) as (re, im) *)
  i_info_shape : option (nat * nat); (* infrastructure_info().constraint_matrix.shape; None = raised *)
  (* the same three calls on ChargingNetwork.from_json(network.to_json()) (+ an Interface on it), when asked *)
  i_reload : option (bool * option bool * bool)
}.

Definition Qpair_close (m i : Q * Q) : bool := Qclose (fst m) (fst i) && Qclose (snd m) (snd i).

Definition check_c06 (c : c06case) : bool :=
  let n := c_net c in
  let X := c_X c in
  let T := c_T c in
  let lin := c_linear c in
  Bool.eqb (net_is_feasible QF n X T lin (c_ovt c) (c_ort c)) (i_net c)
  && (match iface_is_feasible QF n (c_map c) lin (c_ovt c) (c_ort c), i_iface c with
      | Ok b, Some b' => Bool.eqb b b'
      | Err _, None => true
      | _, _ => false
      end)
  && (match infrastructure_info QF n, i_info_shape c with
      | Ok inf, Some (r, k) =>
          Nat.eqb (length (i_matrix inf)) r && Nat.eqb (i_ncols inf) k
          && Bool.eqb (alg_is_feasible QF inf X T lin (opt_or QF (c_ovt c) (n_vt n)) (opt_or QF (c_ort c) (n_rt n)))
                      (i_alg_same c)
          && Bool.eqb (alg_is_feasible_default QF inf X T lin) (i_alg_default c)
      | Err _, None => true
      | _, _ => false
      end)
  && (match i_reload c with
      | None => true
      | Some (rnet, riface, ralg) =>
          Bool.eqb (net_is_feasible QF n X T lin (c_ovt c) (c_ort c)) rnet
          && (match iface_is_feasible QF n (c_map c) lin (c_ovt c) (c_ort c), riface with
              | Ok b, Some b' => Bool.eqb b b'
              | Err _, None => true
              | _, _ => false
              end)
          && (match infrastructure_info QF n with
              | Ok inf => Bool.eqb (alg_is_feasible QF inf X T lin (opt_or QF (c_ovt c) (n_vt n))
                                                    (opt_or QF (c_ort c) (n_rt n))) ralg
              | Err _ => false
              end)
      end)
  && (match n_limits n with
      | [] => true                          (* constraint_current is not called by is_feasible *)
      | _ => list_eqb (list_eqb Qpair_close) (constraint_current QF n X T lin) (i_cur c)
      end).
