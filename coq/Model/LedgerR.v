(* Model/LedgerR.v — the R instance of the ledger model (the one the theorems are about): the same
   polymorphic model (Model/Ledger.v) applied to the kernels regenerated from /repo over R
   (Gen/Battery_R.v, Gen/Evse_R.v, Gen/Ledger_R.v).  Definitions only. *)
From Coq Require Import ZArith Reals List Bool String.
From ACN Require Import Base.Num Base.NumR Gen.Evse_R Gen.EvseZ_Z Gen.Battery_R Gen.Ledger_R Model.Ledger.
Import ListNotations.
Open Scope R_scope.

Definition RO : fops R :=
  {| o0 := 0; o1 := 1; oadd := Rplus; osub := Rminus; omul := Rmult; odiv := Rdiv;
     oofZ := IZR; omax := Rmax; oltb := Rltb; oeqb := Reqb; osqrt := sqrt |}.

(* Battery.charge / Linear2StageBattery.charge (dispatch on charge_calculation) *)
Definition batt_step_R (b : batt R) (p v t : R) (n : R * R) : option (R * batt R) :=
  match b_kind b with
  | BIdeal =>
      match Battery_charge (b_cap b) (b_cur b) (b_pow b) (b_maxp b) p v t with
      | OkS o => Some (Battery_charge_ret o,
                       mk_batt BIdeal (b_cap b) (Battery_charge__current_charge o)
                               (Battery_charge__current_charging_power o) (b_maxp b) (b_noise b) (b_tsoc b))
      | ErrS _ _ => None
      end
  | BL2cont =>
      match L2_charge (b_cap b) (b_cur b) (b_pow b) (b_maxp b) (b_noise b) (b_tsoc b) p v t (fst n) with
      | OkS o => Some (L2_charge_ret o,
                       mk_batt BL2cont (b_cap b) (L2_charge__current_charge o)
                               (L2_charge__current_charging_power o) (b_maxp b) (b_noise b) (b_tsoc b))
      | ErrS _ _ => None
      end
  | BL2step =>
      match L2_charge_stepwise (b_cap b) (b_cur b) (b_pow b) (b_maxp b) (b_noise b) (b_tsoc b) p v t (fst n) (snd n) with
      | OkS o => Some (L2_charge_stepwise_ret o,
                       mk_batt BL2step (b_cap b) (L2_charge_stepwise__current_charge o)
                               (L2_charge_stepwise__current_charging_power o) (b_maxp b) (b_noise b) (b_tsoc b))
      | ErrS _ _ => None
      end
  end.

Definition set_pilot_R (ev : option Z) (p v t : R) (valid : bool) : option (option (R * R * R)) :=
  match BaseEVSE_set_pilot 0 ev p v t valid with
  | ErrS _ _ => None
  | OkS o =>
      match BaseEVSE_set_pilot_effects o with
      | [] => Some None
      | [(_, [p'; v'; t'])] => Some (Some (p', v', t'))
      | _ => None
      end
  end.

Definition ev_charge_R (e p v t r : R) : R * R * R :=
  let o := EV_charge e p v t r in
  (EV_charge_ret o, EV_charge__energy_delivered o, EV_charge__current_charging_rate o).

Definition KR : kern R (batt R) :=
  {| k_set_pilot := set_pilot_R; k_ev_charge := ev_charge_R; k_bstep := batt_step_R;
     k_bcharge := b_cur; k_rate_elt := CN_current_rate_elt; k_peak := Sim_peak_update;
     k_peak_init := Sim_peak_init |}.

(* a two-stage battery in continuous mode divides by its capacity (ZeroDivisionError when 0) *)
Definition batt_ok (b : batt R) : Prop :=
  match b_kind b with BL2cont => b_cap b <> 0 | _ => True end.

(* readable abbreviations used in the statements *)
Definition Rsum (l : list R) : R := fold_right Rplus 0 l.
(* first-principles aggregate power [kW] of one recorded column: sum_s V_s * rate_s / 1000 *)
Fixpoint column_power (net : list (stn (F:=R))) (col : list R) : R :=
  match net, col with
  | s :: net', r :: col' => s_volt s * r / 1000 + column_power net' col'
  | _, _ => 0
  end.

(* What the ledger theorems need from the scalar kernels.  `law_bstep` is the battery
   CONSISTENCY LAW: the charge gained equals the returned rate x V / 1000 x T / 60. *)
Record kern_laws {B : Type} (K : kern R B) (bwf : B -> Prop) : Prop := {
  law_set_pilot_ok : forall ev p v t,
    k_set_pilot K ev p v t true = Some (match ev with None => None | Some _ => Some (p, v, t) end);
  law_set_pilot_bad : forall ev p v t, k_set_pilot K ev p v t false = None;
  law_ev_charge : forall e p v t r, k_ev_charge K e p v t r = (r, e + r * v / 1000 * (t / 60), r);
  law_bstep : forall b p v t n r b', bwf b -> k_bstep K b p v t n = Some (r, b') ->
    bwf b' /\ k_bcharge K b' - k_bcharge K b = r * v / 1000 * (t / 60);
  law_rate_elt : forall o d, k_rate_elt K o d = match o with Some _ => d | None => 0 end;
  law_peak : forall a b, k_peak K a b = Rmax a b;
  law_peak_init : k_peak_init K = 0
}.
