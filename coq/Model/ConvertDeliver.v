(* Model/ConvertDeliver.v — charging the default (ideal) battery of a generated session flat out
   for the whole stay, with the regenerated kernel Gen/Battery_Q.v::Battery_charge (C15). *)
From Coq Require Import ZArith QArith Qminmax List Bool String.
From ACN Require Import Base.Num Gen.Battery_Q.
Open Scope Q_scope.

Definition batt_step_Q (cap maxP pilot V T c : Q) : Q :=
  Battery_charge__current_charge (stateS (Battery_charge cap c 0 maxP pilot V T)).

Fixpoint batt_run_Q (n : nat) (cap maxP pilot V T c : Q) : Q :=
  match n with
  | O => c
  | S k => batt_run_Q k cap maxP pilot V T (batt_step_Q cap maxP pilot V T c)
  end.
