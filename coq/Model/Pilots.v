(* Model/Pilots.v — the pilot-signal matrix of acnsim.Simulator (C04).  Definitions only.

   Hand-written twin of
     Simulator.__init__ (width of the pre-allocated matrix), Simulator._update_schedules,
     simulator._increase_width, the pilot part of one iteration of Simulator.run, and the column
     read of ChargingNetwork.update_pilots,
   polymorphic in the station-id type K (a dict key, compared with keqb) and in the value type A
   (with the value `zero` that numpy writes for omitted stations / fresh columns).  Every scalar
   decision and index expression is the generated kernel from Gen/Pilots_Z.v (regenerated from the
   code on every run); the loops and numpy block operations are written by hand and tied to the
   real Simulator by the correspondence check (harness/c04.py).

   Conventions: the matrix is station-major (`rows`: one list per station, in
   network.station_ids order) and carries its width explicitly (numpy keeps shape (0, w) for a
   network without stations).  A schedule (a Python dict) is an association list in dict iteration
   order.  Exceptions are `ErrS "<ExceptionClass>" <state at the raise>` (Base.Num.resS). *)
From Coq Require Import String ZArith List Bool Arith.
From ACN Require Import Base.Num Gen.Pilots_Z.
Import ListNotations.
(* imported files leave Q/Z/string scopes open; this file is about nat and lists *)
Local Open Scope nat_scope.
Local Open Scope list_scope.

Section Pilots.
  Context {K A : Type}.
  Variable keqb : K -> K -> bool.      (* == on station ids *)
  Variable zero : A.

  Definition schedule := list (K * list A).          (* {station_id: [pilot, ...]} *)
  Record pmat := { rows : list (list A); wid : nat }. (* self.pilot_signals, shape (len rows, wid) *)

  (* new_schedule[k] / k in new_schedule *)
  Fixpoint lookup (k : K) (s : schedule) : option (list A) :=
    match s with
    | [] => None
    | (k', row) :: r => if keqb k k' then Some row else lookup k r
    end.

  (* station_id in self.network.station_ids *)
  Definition known (ids : list K) (k : K) : bool := existsb (keqb k) ids.

  (* set(len(x) for x in new_schedule.values()) : the distinct lengths (first occurrences kept) *)
  Fixpoint distinct (l : list nat) : list nat :=
    match l with
    | [] => []
    | x :: r => x :: filter (fun y => negb (Nat.eqb y x)) (distinct r)
    end.
  Definition lengths (s : schedule) : list nat := distinct (map (fun kv => length (snd kv)) s).

  (* np.array([new_schedule[id] if id in new_schedule else [0] * schedule_length for id in station_ids]) *)
  Definition dense (ids : list K) (len : nat) (s : schedule) : list (list A) :=
    map (fun k => match lookup k s with Some row => row | None => repeat zero len end) ids.

  (* _increase_width(a, target_width) *)
  Definition increase_width (m : pmat) (target : Z) : pmat :=
    if Sim_incw_keep (Z.of_nat (wid m)) target then m
    else {| rows := map (fun r => r ++ repeat zero (Z.to_nat target - wid m)) (rows m);
            wid := Z.to_nat target |}.

  (* r[lo:hi] = d  for one row; numpy refuses (ValueError) when the shapes differ *)
  Definition write_row (lo hi : nat) (r d : list A) : option (list A) :=
    if (lo <=? hi) && (hi <=? length r) && (length d =? hi - lo)
    then Some (firstn lo r ++ d ++ skipn hi r) else None.

  (* a[:, lo:hi] = block *)
  Fixpoint write_block (lo hi : nat) (rs block : list (list A)) : option (list (list A)) :=
    match rs, block with
    | [], [] => Some []
    | r :: rs', d :: block' =>
        match write_row lo hi r d, write_block lo hi rs' block' with
        | Some r', Some rest => Some (r' :: rest)
        | _, _ => None
        end
    | _, _ => None
    end.

  Definition write_cols (m : pmat) (lo hi : Z) (block : list (list A)) : option pmat :=
    match write_block (Z.to_nat lo) (Z.to_nat hi) (rows m) block with
    | Some rs => Some {| rows := rs; wid := wid m |}
    | None => None
    end.

  (* Simulator._update_schedules(new_schedule) with self._iteration = itn, self.pilot_signals = p,
     self.event_queue.get_last_timestamp() = last, self.network.station_ids = ids *)
  Definition update_schedules (ids : list K) (last : option Z) (itn : nat) (p : pmat) (s : schedule)
    : resS pmat :=
    if Sim_upd_is_empty (Z.of_nat (length s)) then OkS p
    else if existsb (fun kv => negb (known ids (fst kv))) s then ErrS "KeyError"%string p
    else
      let lens := lengths s in
      if Sim_upd_ragged (Z.of_nat (length lens)) then ErrS "InvalidScheduleError"%string p
      else
        let len := hd O lens in                              (* schedule_lengths.pop() *)
        let block := dense ids len s in
        let i := Z.of_nat itn in
        let l := Z.of_nat len in
        if Sim_upd_fits i (Z.of_nat (wid p)) l then
          match write_cols p (Sim_upd_lo i) (Sim_upd_hi i l) block with
          | Some p' => OkS p'
          | None => ErrS "ValueError"%string p
          end
        else
          let p1 := increase_width p (Sim_upd_grow_width i last l) in
          match write_cols p1 (Sim_upd_glo i) (Sim_upd_ghi i l) block with
          | Some p' => OkS p'
          | None => ErrS "ValueError"%string p1
          end.

  (* ---------------- one period of Simulator.run, pilot part ---------------- *)
  Record sim := {
    pil : pmat;                          (* pilot_signals *)
    itn : nat;                          (* _iteration *)
    hist : list (nat * schedule);        (* schedule_history, most recent first *)
    sent : list (list A)                 (* pilots passed to set_pilot, one row per period, most recent first *)
  }.

  (* what the rest of the simulator feeds into the pilot logic in one period *)
  Record period_in := {
    p_last : option Z;                   (* event_queue.get_last_timestamp() after this period's events;
                                            None <-> event_queue.empty() *)
    p_sub : option schedule              (* Some s: the scheduler ran and returned s *)
  }.

  (* if not self.event_queue.empty(): width_increase = get_last_timestamp() + 1
     else: width_increase = self._iteration + 1 *)
  Definition run_width (last : option Z) (it : nat) : Z :=
    match last with
    | Some v => Sim_run_width_increase (Z.of_nat it) v false
    | None => Sim_run_width_increase (Z.of_nat it) 0 true
    end.

  (* ChargingNetwork.update_pilots: pilots[station_number, i] for every station, in order;
     numpy raises IndexError when i is not a column *)
  Fixpoint read_col (i : nat) (rs : list (list A)) : option (list A) :=
    match rs with
    | [] => Some []
    | r :: rs' =>
        match nth_error r i, read_col i rs' with
        | Some x, Some xs => Some (x :: xs)
        | _, _ => None
        end
    end.

  (* the rest of the period once the schedule has been dealt with: widen, send column _iteration
     to the stations, advance the clock *)
  Definition send (last : option Z) (st1 : sim) : resS sim :=
    let p2 := increase_width (pil st1) (run_width last (itn st1)) in
    let col := Z.to_nat (Net_update_pilots_col (Z.of_nat (itn st1))) in
    match read_col col (rows p2) with
    | None => ErrS "IndexError"%string {| pil := p2; itn := itn st1; hist := hist st1; sent := sent st1 |}
    | Some row =>
        OkS {| pil := p2; itn := Z.to_nat (Sim_run_next_iteration (Z.of_nat (itn st1)));
               hist := hist st1; sent := row :: sent st1 |}
    end.

  Definition step (ids : list K) (st : sim) (pin : period_in) : resS sim :=
    match p_sub pin with
    | None => send (p_last pin) st
    | Some s =>
        (* new_schedule = self.scheduler.run(); self._update_schedules(new_schedule);
           self.schedule_history[self._iteration] = new_schedule *)
        match update_schedules ids (p_last pin) (itn st) (pil st) s with
        | OkS p' => send (p_last pin) {| pil := p'; itn := itn st; hist := (itn st, s) :: hist st; sent := sent st |}
        | ErrS e pe =>                   (* run() is left by the exception *)
            ErrS e {| pil := pe; itn := itn st; hist := hist st; sent := sent st |}
        end
    end.

  Fixpoint run (ids : list K) (st : sim) (trace : list period_in) : resS sim :=
    match trace with
    | [] => OkS st
    | pin :: rest =>
        match step ids st pin with
        | OkS st' => run ids st' rest
        | ErrS e s => ErrS e s
        end
    end.

  (* Simulator.__init__: width = 1, or get_last_timestamp() + 1 when the queue is not empty *)
  Definition init_width (last0 : option Z) : nat :=
    match last0 with None => 1 | Some v => Z.to_nat (v + 1) end.
  Definition init (ids : list K) (last0 : option Z) : sim :=
    {| pil := {| rows := map (fun _ => repeat zero (init_width last0)) ids; wid := init_width last0 |};
       itn := 0; hist := []; sent := [] |}.

  (* ---------------- specification ---------------- *)
  (* number of periods a schedule covers: the length of its rows (of the first one; accepted
     schedules have rows of one length); the empty mapping covers nothing *)
  Definition sub_len (s : schedule) : nat :=
    match s with [] => 0 | (_, row) :: _ => length row end.
  (* value the schedule assigns to station k at offset j; omitted stations read 0 *)
  Definition sched_val (s : schedule) (k : K) (j : nat) : A :=
    match lookup k s with Some row => nth j row zero | None => zero end.
  (* submissions most recent first: (period of submission, schedule).  The value for station k in
     period t is given by the LAST submission (t', s) with t' <= t < t' + len s; default 0. *)
  Fixpoint pilot_spec (subs : list (nat * schedule)) (k : K) (t : nat) : A :=
    match subs with
    | [] => zero
    | (t', s) :: older =>
        if (t' <=? t) && (t <? t' + sub_len s) then sched_val s k (t - t')
        else pilot_spec older k t
    end.

  (* the submissions contained in a trace that starts at period i0, most recent first *)
  Fixpoint submitted_from (i0 : nat) (trace : list period_in) (acc : list (nat * schedule))
    : list (nat * schedule) :=
    match trace with
    | [] => acc
    | pin :: rest =>
        submitted_from (S i0) rest
          (match p_sub pin with Some s => (i0, s) :: acc | None => acc end)
    end.
  Definition submitted (trace : list period_in) := submitted_from 0 trace [].
  (* submissions made in periods <= t *)
  Definition upto (t : nat) (subs : list (nat * schedule)) := filter (fun e => fst e <=? t) subs.
  (* ---------------- arbitrary callers ---------------- *)
  (* any sequence of direct calls on one simulator object: _update_schedules at any iteration (not
     necessarily increasing) with any queue state, and _increase_width with any target; an exception is
     caught by the caller, who goes on calling.  Returns the matrix, the accepted submissions (most
     recent first) and the outcome of every call (most recent first). *)
  Inductive call :=
  | CUpd (last : option Z) (it : nat) (s : schedule)
  | CWiden (target : Z).

  Fixpoint run_calls (ids : list K) (m : pmat) (calls : list call)
           (acc : list (nat * schedule)) (log : list (option string))
    : pmat * list (nat * schedule) * list (option string) :=
    match calls with
    | [] => (m, acc, log)
    | CUpd last it s :: rest =>
        match update_schedules ids last it m s with
        | OkS m' => run_calls ids m' rest ((it, s) :: acc) (None :: log)
        | ErrS e m' => run_calls ids m' rest acc (Some e :: log)
        end
    | CWiden t :: rest => run_calls ids (increase_width m t) rest acc (None :: log)
    end.

  Definition zero_mat (ids : list K) (w : nat) : pmat :=
    {| rows := map (fun _ => repeat zero w) ids; wid := w |}.
End Pilots.

Arguments pmat : clear implicits.
Arguments sim : clear implicits.
Arguments period_in : clear implicits.
Arguments schedule : clear implicits.
Arguments call : clear implicits.

(* ---------------- executable instance and correspondence checks (K = Z, A = Q) ---------------- *)
From Coq Require Import QArith.

(* stands for float('inf') in recorded values: larger than every double; values are only copied and compared *)
Definition INFQ : Q := Qmake (2 ^ 1100)%Z 1%positive.

Definition qrow_eqb := list_eqb Qeqb.
Definition qmat_eqb := list_eqb qrow_eqb.
Definition ostr_eqb := option_eqb String.eqb.

Definition mk_trace (l : list (option Z * option (schedule Z Q))) : list (period_in Z Q) :=
  map (fun x => {| p_last := fst x; p_sub := snd x |}) l.

(* stream 1: a whole Simulator.run() *)
Record c04case := {
  c_ids : list Z; c_last0 : option Z;
  c_trace : list (option Z * option (schedule Z Q));
  (* recorded from the implementation *)
  i_exc : option string;              (* exception class that ended run(), if any *)
  i_rows : list (list Q); i_wid : Z;  (* sim.pilot_signals, station-major, and its shape[1] *)
  i_iter : Z;                         (* sim._iteration *)
  i_sent : list (list Q);             (* EVSE.current_pilot of every station after each period, chronological *)
  i_hist : option (list Z)            (* sorted(sim.schedule_history) when store_schedule_history=True *)
}.

Definition check_c04 (c : c04case) : bool :=
  let r := run Z.eqb 0%Q (c_ids c) (init 0%Q (c_ids c) (c_last0 c)) (mk_trace (c_trace c)) in
  let st := stateS r in
  ostr_eqb (errS r) (i_exc c)
  && qmat_eqb (rows (pil st)) (i_rows c)
  && Z.eqb (Z.of_nat (wid (pil st))) (i_wid c)
  && Z.eqb (Z.of_nat (itn st)) (i_iter c)
  && qmat_eqb (rev (sent st)) (i_sent c)
  && match i_hist c with
     | None => true
     | Some l => list_eqb Z.eqb (map (fun e => Z.of_nat (fst e)) (rev (hist st))) l
     end.

(* stream 2: sim._update_schedules called directly on a prepared simulator *)
Record c04ucase := {
  u_ids : list Z; u_last : option Z; u_iter : Z; u_rows : list (list Q); u_wid : Z;
  u_sched : schedule Z Q;
  iu_exc : option string; iu_rows : list (list Q); iu_wid : Z
}.

Definition check_c04u (c : c04ucase) : bool :=
  let r := update_schedules Z.eqb 0%Q (u_ids c) (u_last c) (Z.to_nat (u_iter c))
             {| rows := u_rows c; wid := Z.to_nat (u_wid c) |} (u_sched c) in
  ostr_eqb (errS r) (iu_exc c)
  && qmat_eqb (rows (stateS r)) (iu_rows c)
  && Z.eqb (Z.of_nat (wid (stateS r))) (iu_wid c).

(* stream 3: _increase_width called directly *)
Record c04wcase := {
  w_rows : list (list Q); w_wid : Z; w_target : Z;
  iw_exc : option string; iw_rows : list (list Q); iw_wid : Z      (* _increase_width never raises *)
}.

Definition check_c04w (c : c04wcase) : bool :=
  let m := increase_width 0%Q {| rows := w_rows c; wid := Z.to_nat (w_wid c) |} (w_target c) in
  ostr_eqb None (iw_exc c) && qmat_eqb (rows m) (iw_rows c) && Z.eqb (Z.of_nat (wid m)) (iw_wid c).

(* stream 4: several direct calls on one (of several interleaved) simulator objects *)
Inductive qcall :=
| QUpd (last : option Z) (it : Z) (s : schedule Z Q)
| QWiden (target : Z).
Definition to_call (c : qcall) : call Z Q :=
  match c with QUpd l i s => CUpd l (Z.to_nat i) s | QWiden t => CWiden t end.

Record c04scase := {
  s_ids : list Z; s_rows : list (list Q); s_wid : Z; s_calls : list qcall;
  is_log : list (option string);       (* exception class of every call, chronological *)
  is_rows : list (list Q); is_wid : Z
}.

Definition check_c04s (c : c04scase) : bool :=
  match run_calls Z.eqb 0%Q (s_ids c) {| rows := s_rows c; wid := Z.to_nat (s_wid c) |}
                  (map to_call (s_calls c)) [] [] with
  | (m, _, log) =>
      list_eqb ostr_eqb (rev log) (is_log c)
      && qmat_eqb (rows m) (is_rows c) && Z.eqb (Z.of_nat (wid m)) (is_wid c)
  end.
