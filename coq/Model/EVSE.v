(* Model/EVSE.v — executable (Q) model of the three EVSE classes built on the generated
   kernels (Gen/Evse_Q.v, Gen/EvseZ_Z.v).  Definitions only. *)
From Coq Require Import ZArith QArith Qminmax Qabs List Bool String.
From ACN Require Import Base.Num Base.ListX Gen.Evse_Q Gen.EvseZ_Z.
Import ListNotations.
Open Scope Q_scope.

Inductive evse_kind :=
| Continuous (min_rate max_rate : Q)
| Deadband (deadband_end max_rate : Q)
| Finite (rates : list Q).          (* the list as given to the constructor *)

(* FiniteRatesEVSE.__init__: sorted(list(set(allowable_rates) | {0})) *)
Definition finite_init (l : list Q) : list Q := sort_dedup Qleb Qeqb (0 :: l).

Definition valid_rate (k : evse_kind) (p : Q) : bool :=
  match k with
  | Continuous mn mx => EVSE_valid_rate mx mn p
  | Deadband de mx => DeadbandEVSE_valid_rate de mx p
  | Finite l => FiniteRatesEVSE_valid_rate (finite_init l) p
  end.

Definition max_rate (k : evse_kind) : Q :=
  match k with
  | Continuous _ mx => mx
  | Deadband _ mx => mx
  | Finite l => Qmax_list 0 (finite_init l)      (* max(self.allowable_rates); 0 is always a member *)
  end.

Definition min_rate (k : evse_kind) : Q :=
  match k with
  | Continuous mn _ => mn
  | Deadband _ _ => 0                              (* BaseEVSE.min_rate *)
  | Finite l =>
      match filter (fun r => Qltb 0 r) (finite_init l) with
      | [] => 0
      | x :: r => Qmin_list x r
      end
  end.

Definition allowable_pilot_signals (k : evse_kind) : list Q :=
  match k with
  | Continuous mn mx => [mn; mx]
  | Deadband de mx => [de; mx]
  | Finite l => finite_init l
  end.

Definition is_continuous (k : evse_kind) : bool :=
  match k with Finite _ => false | _ => true end.

(* observable outcome of evse.set_pilot on a station with current pilot cur and optional EV *)
Record set_pilot_obs := {
  sp_accepted : bool;
  sp_error : option string;
  sp_current_pilot : Q;
  sp_charge_calls : list (list Q)    (* arguments of each EV.charge call *)
}.

Definition set_pilot (k : evse_kind) (cur : Q) (ev : option Z) (pilot voltage period : Q) : set_pilot_obs :=
  let r := BaseEVSE_set_pilot cur ev pilot voltage period (valid_rate k pilot) in
  let st := stateS r in
  {| sp_accepted := is_okS r;
     sp_error := errS r;
     sp_current_pilot := BaseEVSE_set_pilot__current_pilot st;
     sp_charge_calls := map snd (BaseEVSE_set_pilot_effects st) |}.

(* ---- correspondence case for C13 ---- *)
Record c13case := {
  c_kind : evse_kind; c_cur : Q; c_ev : option Z; c_pilot : Q; c_voltage : Q; c_period : Q;
  (* recorded from the implementation *)
  i_accepted : bool; i_error : option string; i_current_pilot : Q; i_charge_calls : list (list Q);
  i_max : Q; i_min : Q; i_allow : list Q; i_is_cont : bool;
  (* plugin into this station of a second EV *)
  i_plugin_err : option string; i_ev_after_plugin : option Z;
  (* a second pilot sent to the same station object afterwards (None: not sent) *)
  c_pilot2 : option Q;
  i_accepted2 : bool; i_error2 : option string; i_current_pilot2 : Q; i_charge_calls2 : list (list Q)
}.

Definition Qlist_eqb := list_eqb Qeqb.
Definition ostr_eqb := option_eqb String.eqb.

Definition check_c13 (c : c13case) : bool :=
  let o := set_pilot (c_kind c) (c_cur c) (c_ev c) (c_pilot c) (c_voltage c) (c_period c) in
  let pl := BaseEVSE_plugin (c_ev c) 99 in
  Bool.eqb (sp_accepted o) (i_accepted c)
  && ostr_eqb (sp_error o) (i_error c)
  && Qeqb (sp_current_pilot o) (i_current_pilot c)
  && list_eqb Qlist_eqb (sp_charge_calls o) (i_charge_calls c)
  && Qeqb (max_rate (c_kind c)) (i_max c)
  && Qeqb (min_rate (c_kind c)) (i_min c)
  && Qlist_eqb (allowable_pilot_signals (c_kind c)) (i_allow c)
  && Bool.eqb (is_continuous (c_kind c)) (i_is_cont c)
  && ostr_eqb (errS pl) (i_plugin_err c)
  && option_eqb Z.eqb (BaseEVSE_plugin__ev (stateS pl)) (i_ev_after_plugin c)
  && match c_pilot2 c with
     | None => true
     | Some p2 =>
         (* the station keeps the pilot the first call left behind; only the second call's own
            EV.charge invocations are recorded in i_charge_calls2 *)
         let o2 := set_pilot (c_kind c) (sp_current_pilot o) (c_ev c) p2 (c_voltage c) (c_period c) in
         Bool.eqb (sp_accepted o2) (i_accepted2 c)
         && ostr_eqb (sp_error o2) (i_error2 c)
         && Qeqb (sp_current_pilot o2) (i_current_pilot2 c)
         && list_eqb Qlist_eqb (sp_charge_calls o2) (i_charge_calls2 c)
     end.
