(* Model/Analysis.v — acnsim.analysis on a recorded trajectory (C18).

   Two layers, both polymorphic in the numeric carrier (`fops`, Model/Ledger.v):
     * implementation-shaped functions that do what the numpy code does (row-wise vector sums for
       `sum(axis=0)` and `dot`, selection of constraint rows in NETWORK order, element-wise phasor
       scaling, the re-ordered id list zipped into a dict, vstack / max / mean for NEMA, ...);
     * first-principles SPEC functions (per-period formulas written with `nth`).
   The scalar expressions (/1000, the threshold test, the proportions, the NEMA formula, the minute
   offset) are regenerated from analysis/__init__.py (Gen/Analysis_*.v) and enter through `akern`.
   Complex numbers are (re, im) pairs; a complex vector is a pair of real vectors.
   Definitions only. *)
From Coq Require Import ZArith List Bool.
From ACN Require Import Base.Num Base.ListX Model.Ledger.
Import ListNotations.

(* regenerated scalar kernels of analysis/__init__.py *)
Record akern (F : Type) := mk_akern {
  a_power_scale : F -> F;            (* dot / 1000 *)
  a_abs_applied : bool -> bool;      (* constraint_currents: is np.abs applied, given return_magnitudes *)
  a_proportion : F -> F -> F;        (* total_delivered / total_requested *)
  a_remaining : F -> F -> F;         (* EV.remaining_demand: energy_delivered, requested_energy *)
  a_demand_met : F -> F -> bool;     (* ev.remaining_demand < threshold *)
  a_demands_ratio : F -> F -> F;     (* finished / len(ev_history) *)
  a_nema : F -> F -> F -> F;         (* mean, mean, max  |->  (max - mean) / mean *)
  a_minutes : F -> F -> F;           (* i, period |-> period * i *)
  a_energy_cost : F -> F -> F;       (* period, <prices . aggregate power> |-> dot * (period / 60) *)
  a_demand_charge : F -> F -> F      (* dc, max aggregate power |-> dc * max *)
}.
Arguments a_power_scale {F}. Arguments a_abs_applied {F}. Arguments a_proportion {F}. Arguments a_remaining {F}.
Arguments a_demand_met {F}. Arguments a_demands_ratio {F}. Arguments a_nema {F}. Arguments a_minutes {F}.
Arguments a_energy_cost {F}. Arguments a_demand_charge {F}.

Section Analysis.
  Context {F : Type}.
  Variable O : fops F.
  Variable A : akern F.

  Notation z0 := (o0 O).
  Infix "+'" := (oadd O) (at level 50, left associativity).
  Infix "*'" := (omul O) (at level 40, left associativity).
  Infix "/'" := (odiv O) (at level 40, left associativity).

  (* ------------------------------------------------------------ numpy-like vector helpers *)
  Definition zeros (w : nat) : list F := repeat z0 w.
  Definition vadd (a b : list F) : list F := map (fun p => fst p +' snd p) (combine a b).
  Definition vscale (k : F) (v : list F) : list F := map (fun x => k *' x) v.
  Definition vmax (a b : list F) : list F := map (fun p => omax O (fst p) (snd p)) (combine a b).
  (* sum(axis=0) of a matrix with rows of width w *)
  Definition colsum (w : nat) (rows : list (list F)) : list F := fold_left vadd rows (zeros w).
  (* coefs @ rows  (a row vector times a matrix) *)
  Definition lincomb (w : nat) (coefs : list F) (rows : list (list F)) : list F :=
    colsum w (map (fun p => vscale (fst p) (snd p)) (combine coefs rows)).
  Definition fsumA (l : list F) : F := fold_right (oadd O) z0 l.

  (* ------------------------------------------------------------ recorded trajectory *)
  Record traj := mk_traj {
    t_width : nat;                    (* charging_rates.shape[1] *)
    t_rates : list (list F);          (* charging_rates, station-major *)
    t_volts : list F;                 (* network._voltages *)
    t_phasor : list (F * F);          (* (cos, sin) of network._phase_angles [deg] *)
    t_cindex : list Z;                (* network.constraint_index (names as numbers) *)
    t_cmat : list (list F);           (* network.constraint_matrix *)
    t_evh : list (F * F);             (* ev_history values in order: (requested_energy, energy_delivered) *)
    t_iter : nat;                     (* sim.iteration *)
    t_period : F;
    t_cmat_present : bool             (* network.constraint_matrix is not None (a constraint was added at some time) *)
  }.

  (* ------------------------------------------------------------ aggregate_current / aggregate_power *)
  Definition aggregate_current (tr : traj) : list F := colsum (t_width tr) (t_rates tr).
  Definition aggregate_power (tr : traj) : list F :=
    map (a_power_scale A) (lincomb (t_width tr) (t_volts tr) (t_rates tr)).

  (* SPEC: per period, the station sum / the voltage-weighted station sum over 1000 *)
  Definition aggregate_current_spec (tr : traj) (t : nat) : F :=
    fsumA (map (fun row => nth t row z0) (t_rates tr)).
  Definition aggregate_power_spec (tr : traj) (t : nat) : F :=
    fsumA (map (fun p => fst p *' nth t (snd p) z0) (combine (t_volts tr) (t_rates tr))) /' oofZ O 1000.

  (* ------------------------------------------------------------ constraint_currents *)
  Definition zmem (x : Z) (l : list Z) : bool := existsb (Z.eqb x) l.

  (* ChargingNetwork.constraint_current(rates, constraints=ids): rows in NETWORK order *)
  Definition selected_rows (tr : traj) (ids : option (list Z)) : list (list F) :=
    match ids with
    | None => t_cmat tr
    | Some l => map snd (filter (fun p => zmem (fst p) l) (combine (t_cindex tr) (t_cmat tr)))
    end.
  (* (schedule.T * exp(1j * deg2rad(phase))).T : element-wise, as a (re, im) pair of matrices *)
  Definition phasor_re (tr : traj) : list (list F) :=
    map (fun p => vscale (fst (fst p)) (snd p)) (combine (t_phasor tr) (t_rates tr)).
  Definition phasor_im (tr : traj) : list (list F) :=
    map (fun p => vscale (snd (fst p)) (snd p)) (combine (t_phasor tr) (t_rates tr)).
  Definition constraint_current (tr : traj) (ids : option (list Z)) : list (list F * list F) :=
    map (fun row => (lincomb (t_width tr) row (phasor_re tr), lincomb (t_width tr) row (phasor_im tr)))
        (selected_rows tr ids).

  Definition cabs (re im : F) : F := osqrt O (re *' re +' im *' im).

  (* a returned time series: magnitudes or complex values *)
  Inductive series := Mag (m : list F) | Cplx (re im : list F).

  (* python dict built by a comprehension: a repeated key keeps its position and takes the last value *)
  Fixpoint dict_set {V} (k : Z) (v : V) (d : list (Z * V)) : list (Z * V) :=
    match d with
    | [] => [(k, v)]
    | (k', v') :: r => if Z.eqb k k' then (k, v) :: r else (k', v') :: dict_set k v r
    end.
  Definition dict_of {V} (l : list (Z * V)) : list (Z * V) :=
    fold_left (fun d kv => dict_set (fst kv) (snd kv) d) l [].
  Fixpoint dict_get {V} (k : Z) (d : list (Z * V)) : option V :=
    match d with
    | [] => None
    | (k', v) :: r => if Z.eqb k k' then Some v else dict_get k r
    end.

  (* analysis.constraint_currents(sim, return_magnitudes, constraint_ids).
     NOTE the flag is inverted relative to its docstring: `if not return_magnitudes: np.abs(...)`;
     the test itself is regenerated from the code (a_abs_applied), so the model follows either polarity. *)
  Definition constraint_currents (tr : traj) (return_magnitudes : bool) (ids : option (list Z))
    : list (Z * series) :=
    let cur := constraint_current tr ids in
    let out := if a_abs_applied A return_magnitudes
               then map (fun c => Mag (map (fun p => cabs (fst p) (snd p)) (combine (fst c) (snd c)))) cur
               else map (fun c => Cplx (fst c) (snd c)) cur in
    let names := match ids with
                 | None => t_cindex tr
                 | Some l => filter (fun c => zmem c l) (t_cindex tr)
                 end in
    dict_of (combine names out).

  (* "constraint c is requested": constraint_ids=None requests every constraint *)
  Definition requested (ids : option (list Z)) (c : Z) : bool :=
    match ids with None => true | Some l => zmem c l end.

  (* the series computed from ONE row of the constraint matrix (what the code does for a selected row) *)
  Definition series_row (tr : traj) (return_magnitudes : bool) (row : list F) : series :=
    let re := lincomb (t_width tr) row (phasor_re tr) in
    let im := lincomb (t_width tr) row (phasor_im tr) in
    if a_abs_applied A return_magnitudes
    then Mag (map (fun p => cabs (fst p) (snd p)) (combine re im)) else Cplx re im.

  (* the call as the code executes it: on a network that never had a constraint, constraint_matrix is None
     and `self.constraint_matrix[constraint_indices]` raises TypeError (None = raises) *)
  Definition constraint_currents_call (tr : traj) (return_magnitudes : bool) (ids : option (list Z))
    : option (list (Z * series)) :=
    if t_cmat_present tr then Some (constraint_currents tr return_magnitudes ids) else None.

  (* SPEC: the phase-aware weighted sum of constraint row j in period t *)
  Definition cc_re_spec (tr : traj) (j t : nat) : F :=
    fsumA (map (fun p => fst (fst p) *' (fst (snd (fst p)) *' nth t (snd p) z0))
               (combine (combine (nth j (t_cmat tr) []) (t_phasor tr)) (t_rates tr))).
  Definition cc_im_spec (tr : traj) (j t : nat) : F :=
    fsumA (map (fun p => fst (fst p) *' (snd (snd (fst p)) *' nth t (snd p) z0))
               (combine (combine (nth j (t_cmat tr) []) (t_phasor tr)) (t_rates tr))).
  Definition cc_mag_spec (tr : traj) (j t : nat) : F := cabs (cc_re_spec tr j t) (cc_im_spec tr j t).
  Definition periods (tr : traj) : list nat := seq 0 (t_width tr).

  (* the first-principles series of constraint row j: magnitudes or complex values of the phase-aware sum *)
  Definition series_spec_of (tr : traj) (return_magnitudes : bool) (j : nat) : series :=
    if a_abs_applied A return_magnitudes
    then Mag (map (cc_mag_spec tr j) (periods tr))
    else Cplx (map (cc_re_spec tr j) (periods tr)) (map (cc_im_spec tr j) (periods tr)).

  (* the recorded matrix of a ledger run (one list per period), station-major as Simulator.charging_rates *)
  Definition station_major_of (by_period : list (list F)) (n : nat) : list (list F) :=
    map (fun s => map (fun col => nth s col z0) by_period) (seq 0 n).

  (* ------------------------------------------------------------ energy_cost / demand_charge
     `prices` = tariff.get_tariffs(sim.start, len(agg), sim.period), `dc` = tariff.get_demand_charge(sim.start) of the
     tariff that applies (the explicit argument if one is given, otherwise the simulator's own); the tariff lookup
     itself is C17's subject *)
  Definition energy_cost (tr : traj) (prices : list F) : F :=
    a_energy_cost A (t_period tr)
                  (fsumA (map (fun p => fst p *' snd p) (combine prices (aggregate_power tr)))).
  (* np.max of a non-empty vector; None = ValueError on an empty one *)
  Definition vec_max (v : list F) : option F :=
    match v with [] => None | x :: r => Some (fold_left (omax O) r x) end.
  Definition demand_charge (tr : traj) (dc : F) : option F :=
    option_map (a_demand_charge A dc) (vec_max (aggregate_power tr)).
  (* SPEC *)
  Definition energy_cost_spec (tr : traj) (prices : list F) : F :=
    fsumA (map (fun p => fst p *' snd p) (combine prices (map (aggregate_power_spec tr) (periods tr))))
    *' (t_period tr /' oofZ O 60).
  Definition demand_charge_spec (tr : traj) (dc : F) : option F :=
    option_map (fun m => dc *' m) (vec_max (map (aggregate_power_spec tr) (periods tr))).

  (* ------------------------------------------------------------ energy metrics *)
  Definition total_energy_requested (tr : traj) : F := fold_left (oadd O) (map fst (t_evh tr)) z0.
  Definition total_energy_delivered (tr : traj) : F := fold_left (oadd O) (map snd (t_evh tr)) z0.
  (* None = division by zero *)
  Definition proportion_of_energy_delivered (tr : traj) : option F :=
    if oeqb O (total_energy_requested tr) z0 then None
    else Some (a_proportion A (total_energy_delivered tr) (total_energy_requested tr)).
  Definition n_finished (tr : traj) (threshold : F) : nat :=
    length (filter (fun e => a_demand_met A (a_remaining A (snd e) (fst e)) threshold) (t_evh tr)).
  Definition proportion_of_demands_met (tr : traj) (threshold : F) : option F :=
    match t_evh tr with
    | [] => None
    | _ => Some (a_demands_ratio A (oofZ O (Z.of_nat (n_finished tr threshold)))
                                   (oofZ O (Z.of_nat (length (t_evh tr)))))
    end.

  (* ------------------------------------------------------------ NEMA current unbalance *)
  Fixpoint all_some {V} (l : list (option V)) : option (list V) :=
    match l with
    | [] => Some []
    | None :: _ => None
    | Some v :: r => match all_some r with Some r' => Some (v :: r') | None => None end
    end.
  Definition mags_of (s : series) : list F := match s with Mag m => m | Cplx re _ => re end.

  (* None = KeyError (unknown phase id) / ValueError (empty vstack); per period None = nan (mean 0) *)
  Definition current_unbalance (tr : traj) (phase_ids : list Z) : option (list (option F)) :=
    let d := constraint_currents tr false (Some phase_ids) in      (* the default return_magnitudes=False *)
    match all_some (map (fun p => dict_get p d) phase_ids) with
    | None => None
    | Some [] => None
    | Some (s0 :: rest) =>
        let rows := map mags_of (s0 :: rest) in
        let mx := fold_left vmax (map mags_of rest) (mags_of s0) in
        let mean := map (fun s => s /' oofZ O (Z.of_nat (length rows))) (colsum (t_width tr) rows) in
        Some (map (fun p => if oeqb O (snd p) z0 then None else Some (a_nema A (snd p) (snd p) (fst p)))
                  (combine mx mean))
    end.

  Definition current_unbalance_call (tr : traj) (phase_ids : list Z) : option (list (option F)) :=
    if t_cmat_present tr then current_unbalance tr phase_ids else None.

  (* SPEC: NEMA for three phase currents *)
  Definition nema_spec (ia ib ic : F) : option F :=
    let mean := (ia +' (ib +' ic)) /' oofZ O 3 in
    if oeqb O mean z0 then None
    else Some (osub O (omax O (omax O ia ib) ic) mean /' mean).

  (* ------------------------------------------------------------ datetimes_array (minutes after start) *)
  Definition datetimes_minutes (tr : traj) : list F :=
    map (fun i => a_minutes A (oofZ O (Z.of_nat i)) (t_period tr)) (seq 0 (t_iter tr)).

  (* well-formedness of a recorded trajectory (shapes numpy enforces) *)
  Definition wf (tr : traj) : Prop :=
    Forall (fun row => length row = t_width tr) (t_rates tr)
    /\ length (t_volts tr) = length (t_rates tr)
    /\ length (t_phasor tr) = length (t_rates tr)
    /\ length (t_cmat tr) = length (t_cindex tr)
    /\ Forall (fun row => length row = length (t_rates tr)) (t_cmat tr).
End Analysis.

Arguments mk_traj {F}. Arguments t_width {F}. Arguments t_rates {F}. Arguments t_volts {F}.
Arguments t_phasor {F}. Arguments t_cindex {F}. Arguments t_cmat {F}. Arguments t_evh {F}.
Arguments t_iter {F}. Arguments t_period {F}. Arguments t_cmat_present {F}.
Arguments Mag {F}. Arguments Cplx {F}.
