(* Model/Events.v — acnportal.acnsim.events.EventQueue on top of the exact heapq model.
   Definitions only (proofs: Proofs/Events.v).

   Translated from the code on every run (Gen/Events_Z.v, Gen/EventParams.v):
     Event.__lt__, EventQueue.empty, the loop guard of get_current_events, the if/else of
     get_last_timestamp, and the precedence constants of the three event classes.
   Hand-written here: the data structure, the loops, Python's tuple comparison, `max(.., key=..)`,
   and the registry-based serialisation of the array.

   An event object is modelled by the pair (precedence, identity): Python's identity-based
   `==` on events is equality of pairs, and `str(id(obj))`, the registry key used by
   _to_registry, is the pair itself (any injective naming of objects would do).  The heap entry
   is the tuple `(event.timestamp, event)` exactly as `add_event` builds it. *)
From Coq Require Import ZArith List Bool.
From ACN Require Import Base.Num Base.ListX Model.HeapQ Gen.Events_Z Gen.EventParams.
Import ListNotations.
Open Scope Z_scope.

Definition event := (Z * nat)%type.          (* (precedence, identity) *)
Definition item := (Z * event)%type.         (* (timestamp, event) *)
Definition ev_prec (e : event) : Z := fst e.
Definition ev_id (e : event) : nat := snd e.
Definition item_ts (x : item) : Z := fst x.
Definition item_prec (x : item) : Z := ev_prec (snd x).

Definition ev_eqb (a b : event) : bool := Z.eqb (fst a) (fst b) && Nat.eqb (snd a) (snd b).
Definition item_eqb (a b : item) : bool := Z.eqb (fst a) (fst b) && ev_eqb (snd a) (snd b).

(* Python's  (t1, e1) < (t2, e2):  the first component that is not `==` decides with `<`;
   equal tuples are not `<`.  Events compare `==` by identity and `<` by Event.__lt__. *)
Definition item_lt (a b : item) : bool :=
  if Z.eqb (fst a) (fst b) then
    if ev_eqb (snd a) (snd b) then false
    else Event_lt (ev_prec (snd a)) (ev_prec (snd b))
  else Z.ltb (fst a) (fst b).

Definition item0 : item := (0, (0, 0%nat)).   (* out-of-range read; never reached *)

Record queue := { q_queue : list item; q_timestep : Z }.

(* EventQueue() *)
Definition eq_new : queue := {| q_queue := []; q_timestep := 0 |}.

(* __len__ / empty *)
Definition eq_len (q : queue) : Z := Z.of_nat (length (q_queue q)).
Definition eq_empty (q : queue) : bool := EventQueue_empty (eq_len q).

(* add_event: heapq.heappush(self._queue, (event.timestamp, event)) *)
Definition add_event (q : queue) (x : item) : queue :=
  {| q_queue := heappush item_lt item0 (q_queue q) x; q_timestep := q_timestep q |}.

(* add_events: for e in events: self.add_event(e) *)
Definition add_events (q : queue) (xs : list item) : queue := fold_left add_event xs q.

(* EventQueue(events) *)
Definition eq_init (xs : list item) : queue := add_events eq_new xs.

(* get_event: heapq.heappop(self._queue)[1]; None = IndexError.  The event carries its
   timestamp, so the whole entry stands for the returned event. *)
Definition get_event (q : queue) : option (item * queue) :=
  match heappop item_lt item0 (q_queue q) with
  | None => None
  | Some (x, h) => Some (x, {| q_queue := h; q_timestep := q_timestep q |})
  end.

(* get_current_events:
       self._timestep = timestep
       current_events = []
       while not self.empty() and self._queue[0][0] <= self._timestep:
           current_events.append(self.get_event())
       return current_events
   fuel = number of pending events (each round pops one). *)
Fixpoint current_loop (fuel : nat) (q : queue) (current_events : list item) : queue * list item :=
  match fuel with
  | O => (q, current_events)
  | S fuel' =>
    if EventQueue_current_guard (q_timestep q) (fst (nth 0 (q_queue q) item0)) (eq_empty q) then
      match get_event q with
      | Some (x, q') => current_loop fuel' q' (current_events ++ [x])
      | None => (q, current_events)
      end
    else (q, current_events)
  end.

Definition get_current_events (q : queue) (timestep : Z) : queue * list item :=
  let q1 := {| q_queue := q_queue q; q_timestep := timestep |} in
  current_loop (length (q_queue q1)) q1 [].

(* max(self._queue, key=lambda x: x[0]): the first entry with the largest key *)
Fixpoint py_max_key (best : item) (l : list item) : item :=
  match l with
  | [] => best
  | x :: r => py_max_key (if Z.ltb (fst best) (fst x) then x else best) r
  end.

Definition get_last_timestamp (q : queue) : option Z :=
  let max_ts := match q_queue q with [] => 0 | x :: r => fst (py_max_key x r) end in
  EventQueue_get_last_timestamp (eq_empty q) max_ts.

(* ---- serialisation: _to_dict / _from_dict with the registry of BaseSimObj.
   _to_dict writes, for each heap entry in array order, (ts, registry id of the event) and adds
   the event's attribute dict to the context once per object; _from_dict rebuilds the array in
   the stored order, building each registered object once (loaded_dict). *)
Record jdict := {
  j_timestep : Z;
  j_queue : list (Z * event);              (* (ts, registry id) *)
  j_context : list (event * Z)             (* registry id -> serialised precedence attribute *)
}.

Fixpoint ctx_lookup (k : event) (ctx : list (event * Z)) : option Z :=
  match ctx with
  | [] => None
  | (k', v) :: r => if ev_eqb k k' then Some v else ctx_lookup k r
  end.

Fixpoint to_dict_loop (l : list item) (ctx : list (event * Z)) (out : list (Z * event))
  : list (Z * event) * list (event * Z) :=
  match l with
  | [] => (out, ctx)
  | (ts, e) :: r =>
    let ctx' := match ctx_lookup e ctx with Some _ => ctx | None => ctx ++ [(e, ev_prec e)] end in
    to_dict_loop r ctx' (out ++ [(ts, e)])
  end.

Definition to_dict (q : queue) : jdict :=
  let '(out, ctx) := to_dict_loop (q_queue q) [] [] in
  {| j_timestep := q_timestep q; j_queue := out; j_context := ctx |}.

(* None = KeyError (a registry id that is not in the context) *)
Fixpoint from_dict_loop (l : list (Z * event)) (ctx : list (event * Z)) (out : list item) : option (list item) :=
  match l with
  | [] => Some out
  | (ts, rid) :: r =>
    match ctx_lookup rid ctx with
    | None => None
    | Some prec => from_dict_loop r ctx (out ++ [(ts, (prec, ev_id rid))])
    end
  end.

Definition from_dict (j : jdict) : option queue :=
  match from_dict_loop (j_queue j) (j_context j) [] with
  | None => None
  | Some arr => Some {| q_queue := arr; q_timestep := j_timestep j |}
  end.

(* ---- operations and observable results, for op sequences *)
Inductive op :=
| OAdd (x : item) | OAddMany (xs : list item) | OGet | OCurrent (t : Z)
| OLen | OEmpty | OLast | OJson
| OQueue.                                   (* the `queue` property: the raw array *)

Inductive result :=
| RNone | REvent (x : item) | RIndexError | REvents (l : list item)
| RLen (n : Z) | RBool (b : bool) | RLast (o : option Z)
| RJson (o : option (Z * list item))         (* the restored (_timestep, _queue); None = KeyError *)
| RQueue (l : list item).

Definition step (q : queue) (o : op) : queue * result :=
  match o with
  | OAdd x => (add_event q x, RNone)
  | OAddMany xs => (add_events q xs, RNone)
  | OGet => match get_event q with
            | Some (x, q') => (q', REvent x)
            | None => (q, RIndexError)
            end
  | OCurrent t => let '(q', l) := get_current_events q t in (q', REvents l)
  | OLen => (q, RLen (eq_len q))
  | OEmpty => (q, RBool (eq_empty q))
  | OLast => (q, RLast (get_last_timestamp q))
  | OJson => match from_dict (to_dict q) with
             | Some q' => (q', RJson (Some (q_timestep q', q_queue q')))
             | None => (q, RJson None)
             end
  | OQueue => (q, RQueue (q_queue q))
  end.

Fixpoint run (q : queue) (ops : list op) : queue * list result :=
  match ops with
  | [] => (q, [])
  | o :: r => let '(q1, x) := step q o in
              let '(q2, xs) := run q1 r in (q2, x :: xs)
  end.

(* bookkeeping used by the statements: everything inserted / everything returned so far *)
Fixpoint inserted (ops : list op) : list item :=
  match ops with
  | [] => []
  | OAdd x :: r => x :: inserted r
  | OAddMany xs :: r => xs ++ inserted r
  | _ :: r => inserted r
  end.

Fixpoint returned (rs : list result) : list item :=
  match rs with
  | [] => []
  | REvent x :: r => x :: returned r
  | REvents l :: r => l ++ returned r
  | _ :: r => returned r
  end.

(* ---- correspondence cases: the three event classes with the generated precedences *)
Inductive kind := KUnplug | KPlugin | KRecompute.
Definition prec_of (k : kind) : Z :=
  match k with KUnplug => prec_unplug | KPlugin => prec_plugin | KRecompute => prec_recompute end.
Definition mk (ts : Z) (k : kind) (id : nat) : item := (ts, (prec_of k, id)).

Definition result_eqb (a b : result) : bool :=
  match a, b with
  | RNone, RNone => true
  | REvent x, REvent y => item_eqb x y
  | RIndexError, RIndexError => true
  | REvents l, REvents m => list_eqb item_eqb l m
  | RLen n, RLen m => Z.eqb n m
  | RBool x, RBool y => Bool.eqb x y
  | RLast x, RLast y => option_eqb Z.eqb x y
  | RJson x, RJson y =>
      option_eqb (fun p r => Z.eqb (fst p) (fst r) && list_eqb item_eqb (snd p) (snd r)) x y
  | RQueue l, RQueue m => list_eqb item_eqb l m
  | _, _ => false
  end.

Record c11case := {
  c_init : list item;                  (* EventQueue(events) *)
  c_ops : list op;
  i_results : list result;             (* recorded from the implementation, one per op *)
  i_final : list item;                 (* the implementation's _queue array at the end *)
  i_timestep : Z
}.

Definition check_c11 (c : c11case) : bool :=
  let '(q, rs) := run (eq_init (c_init c)) (c_ops c) in
  list_eqb result_eqb rs (i_results c) &&
  list_eqb item_eqb (q_queue q) (i_final c) &&
  Z.eqb (q_timestep q) (i_timestep c).

(* ---- several queues in one process: operations addressed to queue 0, 1, 2, ... interleaved in one
   sequence.  A queue's state is its own array and _timestep and nothing else, and a result is a value:
   an operation on queue i reads and writes queue i only, and what was returned earlier cannot change.
   (That the implementation's queues share no state and that its returned lists stay what they were is
   checked on every correspondence case: harness/c11.py keeps every returned list and re-reads it.) *)
Definition mstep (qs : list queue) (a : nat * op) : list queue * result :=
  let '(q', r) := step (nth (fst a) qs eq_new) (snd a) in (upd (fst a) q' qs, r).

Fixpoint mrun (qs : list queue) (ops : list (nat * op)) : list queue * list result :=
  match ops with
  | [] => (qs, [])
  | a :: r => let '(qs1, x) := mstep qs a in
              let '(qs2, xs) := mrun qs1 r in (qs2, x :: xs)
  end.

(* the operations addressed to queue i, and the results they got *)
Definition proj (i : nat) (ops : list (nat * op)) : list op :=
  map snd (filter (fun a => Nat.eqb (fst a) i) ops).

Fixpoint proj_results (i : nat) (ops : list (nat * op)) (rs : list result) : list result :=
  match ops, rs with
  | a :: ops', r :: rs' =>
      if Nat.eqb (fst a) i then r :: proj_results i ops' rs' else proj_results i ops' rs'
  | _, _ => []
  end.

Record c11multi := {
  m_inits : list (list item);          (* EventQueue(events) for each queue *)
  m_ops : list (nat * op);             (* (queue index, operation) *)
  mi_results : list result;            (* recorded from the implementation, one per op; a returned list is
                                          recorded as what it holds at the END of the sequence as well *)
  mi_finals : list (list item * Z)     (* each queue's _queue array and _timestep at the end *)
}.

Definition final_eqb (a b : list item * Z) : bool :=
  list_eqb item_eqb (fst a) (fst b) && Z.eqb (snd a) (snd b).

Definition check_c11m (c : c11multi) : bool :=
  let '(qs, rs) := mrun (map eq_init (m_inits c)) (m_ops c) in
  list_eqb result_eqb rs (mi_results c) &&
  list_eqb final_eqb (map (fun q => (q_queue q, q_timestep q)) qs) (mi_finals c).
