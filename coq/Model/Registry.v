(* Model/Registry.v — C09 part (b): BaseSimObj._to_registry / _from_registry / _build_from_id on an
   object heap.  Definitions only (proofs are in Proofs/Registry.v).

   An object is (class name, scalar attributes, reference-valued attributes in the order in which
   _to_dict hands them to the nested _to_registry calls).  Object identity is an address.
     to_reg    — `_to_registry(context_dict)`: return at once if id(self) is already a key of
                 context_dict; otherwise run _to_dict (which recurses into the referenced objects,
                 in order, threading context_dict) and only THEN insert the entry under id(self)
                 (post-order; a cyclic graph therefore never terminates: here it runs out of fuel).
     from_reg  — `_build_from_id(obj_id, context_dict, loaded_dict)`: return loaded_dict[obj_id] if
                 present; KeyError if obj_id is not in context_dict; otherwise _from_dict builds the
                 referenced objects first (threading loaded_dict), creates a NEW object (fresh
                 address) and records it in loaded_dict.
   The scalar payload type Sc is arbitrary. *)
From Coq Require Import ZArith List Bool Arith String.
From ACN Require Import Base.Num.
Import ListNotations.

Definition addr := nat.

Record obj (Sc : Type) : Type := mkobj { o_cls : string; o_scal : Sc; o_refs : list addr }.
Arguments mkobj {Sc}. Arguments o_cls {Sc}. Arguments o_scal {Sc}. Arguments o_refs {Sc}.

(* finite maps keyed by addresses: association lists, first match wins *)
Fixpoint alookup {A} (k : addr) (l : list (addr * A)) : option A :=
  match l with
  | [] => None
  | (k', v) :: r => if Nat.eqb k k' then Some v else alookup k r
  end.
Definition amem {A} (k : addr) (l : list (addr * A)) : bool :=
  match alookup k l with Some _ => true | None => false end.

Section Reg.
  Variable Sc : Type.
  Definition heap := list (addr * obj Sc).
  (* context_dict: id -> {"class", "attributes"}; ids are the addresses; insertion ordered *)
  Definition ctx := list (addr * obj Sc).

  (* one nested call per reference, threading the context_dict; None = failure below *)
  Definition thread_ctx (f : addr -> ctx -> option ctx) (refs : list addr) (c : ctx) : option ctx :=
    fold_left (fun acc r => match acc with Some c' => f r c' | None => None end) refs (Some c).

  Fixpoint to_reg (fuel : nat) (h : heap) (a : addr) (c : ctx) : option ctx :=
    match fuel with
    | O => None
    | S f =>
        if amem a c then Some c
        else match alookup a h with
             | None => None
             | Some o =>
                 match thread_ctx (to_reg f h) (o_refs o) c with
                 | Some c' => Some (c' ++ [(a, o)])
                 | None => None
                 end
             end
    end.

  (* obj.to_json(): {"id": id(self), "context_dict": ...} *)
  Definition to_registry (fuel : nat) (h : heap) (root : addr) : option ctx := to_reg fuel h root [].

  (* state of a load: the new heap, loaded_dict (id -> new address), next fresh address *)
  Record lstate : Type := mkl { l_heap : heap; l_loaded : list (addr * addr); l_next : addr }.

  Definition thread_load (f : addr -> lstate -> option (addr * lstate)) (refs : list addr) (st : lstate)
    : option (list addr * lstate) :=
    fold_left (fun acc r => match acc with
                            | Some (rs, st') => match f r st' with
                                                | Some (a, st'') => Some (rs ++ [a], st'')
                                                | None => None
                                                end
                            | None => None
                            end) refs (Some ([], st)).

  Fixpoint from_reg (fuel : nat) (c : ctx) (id : addr) (st : lstate) : option (addr * lstate) :=
    match fuel with
    | O => None
    | S f =>
        match alookup id (l_loaded st) with
        | Some a => Some (a, st)
        | None =>
            match alookup id c with
            | None => None                       (* KeyError: not found in context_dict *)
            | Some e =>
                match thread_load (from_reg f c) (o_refs e) st with
                | Some (rs, st') =>
                    let a := l_next st' in
                    Some (a, {| l_heap := (a, mkobj (o_cls e) (o_scal e) rs) :: l_heap st';
                                l_loaded := (id, a) :: l_loaded st';
                                l_next := S a |})
                | None => None
                end
            end
        end
    end.

  (* cls.from_json(text): fresh addresses start at `base` *)
  Definition from_registry (fuel : nat) (c : ctx) (root : addr) (base : addr) : option (addr * lstate) :=
    from_reg fuel c root {| l_heap := []; l_loaded := []; l_next := base |}.

  (* ---- what the isomorphism theorem talks about ---- *)
  Definition edge (h : heap) (a b : addr) : Prop :=
    exists o, alookup a h = Some o /\ In b (o_refs o).
  Inductive reachable (h : heap) (root : addr) : addr -> Prop :=
  | reach_root : reachable h root root
  | reach_step : forall a b, reachable h root a -> edge h a b -> reachable h root b.

  (* f maps the part of h reachable from root one-to-one onto ALL of h', preserving class, scalars
     and references *)
  Record iso (h : heap) (root : addr) (h' : heap) (root' : addr) (f : addr -> addr) : Prop := {
    iso_root : f root = root';
    iso_inj : forall a b, reachable h root a -> reachable h root b -> f a = f b -> a = b;
    iso_obj : forall a o, reachable h root a -> alookup a h = Some o ->
              alookup (f a) h' = Some (mkobj (o_cls o) (o_scal o) (map f (o_refs o)));
    iso_surj : forall a' o', alookup a' h' = Some o' -> exists a, reachable h root a /\ f a = a'
  }.

  (* follow a path of reference positions from an object *)
  Fixpoint follow (h : heap) (a : addr) (p : list nat) : option addr :=
    match p with
    | [] => Some a
    | i :: p' => match alookup a h with
                 | Some o => match nth_error (o_refs o) i with
                             | Some b => follow h b p'
                             | None => None
                             end
                 | None => None
                 end
    end.

  (* everything that can be read from an object by following references: its tree unfolding *)
  Inductive tree : Type :=
  | Node (cls : string) (sc : Sc) (kids : list tree)
  | Cut.                         (* out of fuel / dangling reference *)
  Fixpoint unfold (fuel : nat) (h : heap) (a : addr) : tree :=
    match fuel with
    | O => Cut
    | S f => match alookup a h with
             | Some o => Node (o_cls o) (o_scal o) (map (unfold f h) (o_refs o))
             | None => Cut
             end
    end.

  (* ---- canonical form of a rooted graph (used by the correspondence check) ---- *)
  Fixpoint dfs_order (fuel : nat) (h : heap) (a : addr) (seen : list addr) : list addr :=
    match fuel with
    | O => seen
    | S f =>
        if existsb (Nat.eqb a) seen then seen
        else match alookup a h with
             | None => seen ++ [a]
             | Some o => fold_left (fun s r => dfs_order f h r s) (o_refs o) (seen ++ [a])
             end
    end.
  Fixpoint index_of (a : addr) (l : list addr) (i : nat) : nat :=
    match l with [] => i | x :: r => if Nat.eqb a x then i else index_of a r (S i) end.
  Definition canon (fuel : nat) (h : heap) (root : addr) : list (option (string * Sc * list nat)) :=
    let order := dfs_order fuel h root [] in
    map (fun a => match alookup a h with
                  | Some o => Some (o_cls o, o_scal o, map (fun r => index_of r order 0) (o_refs o))
                  | None => None
                  end) order.
End Reg.

Arguments to_reg {Sc}. Arguments to_registry {Sc}. Arguments from_reg {Sc}. Arguments from_registry {Sc}.
Arguments l_heap {Sc}. Arguments l_loaded {Sc}. Arguments l_next {Sc}. Arguments mkl {Sc}.
Arguments reachable {Sc}. Arguments reach_root {Sc}. Arguments reach_step {Sc}. Arguments edge {Sc}. Arguments iso {Sc}. Arguments follow {Sc}.
Arguments unfold {Sc}. Arguments canon {Sc}. Arguments dfs_order {Sc}. Arguments thread_ctx {Sc}. Arguments thread_load {Sc}.

(* ------------------------------------------------------------------------------------------ *)
(* correspondence: the real _to_registry / from_json against this model                       *)
(* ------------------------------------------------------------------------------------------ *)
Open Scope Z_scope.
Record c09reg : Type := {
  r_heap : heap Z;            (* live objects reachable from the simulator at the dump (scalars: digest) *)
  r_root : addr;
  r_fuel : nat;
  i_ctx : list (addr * (string * list addr));   (* the real context_dict: id, class, referenced ids, in insertion order *)
  i_ctx_root : addr;
  i_heap2 : heap Z;           (* objects reachable from the loaded simulator *)
  i_root2 : addr
}.

Definition nat_list_eqb := list_eqb Nat.eqb.
Fixpoint forall2b {A B} (f : A -> B -> bool) (a : list A) (b : list B) : bool :=
  match a, b with
  | [], [] => true
  | x :: a', y :: b' => f x y && forall2b f a' b'
  | _, _ => false
  end.
Definition ctx_entry_eqb (m : addr * obj Z) (i : addr * (string * list addr)) : bool :=
  Nat.eqb (fst m) (fst i) && String.eqb (o_cls (snd m)) (fst (snd i)) && nat_list_eqb (o_refs (snd m)) (snd (snd i)).
Definition canon_entry_eqb (a b : option (string * Z * list nat)) : bool :=
  match a, b with
  | Some (c1, s1, r1), Some (c2, s2, r2) => String.eqb c1 c2 && Z.eqb s1 s2 && nat_list_eqb r1 r2
  | _, _ => false
  end.

Definition check_c09reg (c : c09reg) : bool :=
  match to_registry (r_fuel c) (r_heap c) (r_root c) with
  | None => false
  | Some cx =>
      (* same entries in the same (DFS post-)order, same class and references *)
      forall2b ctx_entry_eqb cx (i_ctx c) && Nat.eqb (r_root c) (i_ctx_root c)
      && match from_registry (r_fuel c) cx (r_root c) 1000%nat with
         | None => false
         | Some (root', st) =>
             let n := List.length (r_heap c) in
             let cm := canon (S n) (l_heap st) root' in
             (* the model's load, the real load and the dumped graph have one canonical form *)
             list_eqb canon_entry_eqb cm (canon (S n) (i_heap2 c) (i_root2 c))
             && list_eqb canon_entry_eqb cm (canon (S n) (r_heap c) (r_root c))
             && Nat.eqb (List.length (l_heap st)) (List.length (i_heap2 c))
         end
  end.
