(* Model/FeasBig.v — the same algorithm-side feasibility check as Preproc.feas_rows, evaluated with
   Bignums' BigQ (machine-word arithmetic) so that the correspondence runs are fast under vm_compute.
   Definitions only; Proofs/FeasBig.v proves  feas_big (big_rows rows) x = feas_rows rows x  for all inputs,
   so running the structural model with feas_big is running it with the phasor check of Preproc.v. *)
From Coq Require Import ZArith QArith List Bool.
From Bignums Require Import BigZ BigQ.
From ACN Require Import Base.Num Model.Preproc.
Import ListNotations.

Definition bq_leb (a b : bigQ) : bool :=
  match BigQ.compare a b with Gt => false | _ => true end.

Fixpoint bdot (a x : list bigQ) : bigQ :=
  match a, x with
  | ai :: a', xi :: x' => BigQ.add (BigQ.mul ai xi) (bdot a' x')
  | _, _ => BigQ.zero
  end.

Record brow := { br_re : list bigQ; br_im : list bigQ; br_rhs : bigQ }.

Definition big_rows (rows : list crow) : list brow :=
  map (fun r => {| br_re := map BigQ.of_Q (cr_re r); br_im := map BigQ.of_Q (cr_im r);
                   br_rhs := BigQ.of_Q (feas_rhs (cr_lim r)) |}) rows.

Definition brow_ok (x : list bigQ) (r : brow) : bool :=
  let re := bdot (br_re r) x in
  let im := bdot (br_im r) x in
  bq_leb BigQ.zero (br_rhs r)
  && bq_leb (BigQ.add (BigQ.mul re re) (BigQ.mul im im)) (BigQ.mul (br_rhs r) (br_rhs r)).

Definition feas_big (rows : list brow) (x : list Q) : bool :=
  let bx := map BigQ.of_Q x in forallb (brow_ok bx) rows.
