(* Model/Convert.v — executable (Z / Q) model of session generation (C15):
     acndata_events.get_evs / _convert_to_ev / _datetime_to_timestamp,
     stochastic_events.StochasticEvents.{clip_samples, generate_events, _convert_ev_matrix},
     battery.batt_cap_fn (two-stage capacity fit) and "charge the fitted battery for the stay".
   The scalar steps are the regenerated kernels Gen/Convert_Q.v, Gen/Fit_Q.v, Gen/FitConst.v,
   Gen/FitBatt_Q.v (= Linear2StageBattery._charge, as Gen/Battery_Q.v but with the fast rational exp);
   only loops, recursion, dictionaries and the float inf/nan corner are written
   here.  Definitions only (lemmas are in Proofs/Convert.v). *)
From Coq Require Import ZArith QArith Qminmax Qabs Qround List Bool String.
From ACN Require Import Base.Num Base.QExpFast Gen.Convert_Q Gen.Fit_Q Gen.FitConst Gen.FitBatt_Q.
Import ListNotations.
Open Scope string_scope.
Open Scope Q_scope.

(* ------------------------------------------------------------------------------------------ *)
(* batt_cap_fn                                                                                *)
(* ------------------------------------------------------------------------------------------ *)

(* binsearch(f, lb, ub, target, tol): the recursion skeleton; every expression is generated.
   fuel = Python's recursion depth budget; None = RecursionError. *)
Fixpoint binsearch_Q (fuel : nat) (f : Q -> Q) (lb ub target tol : Q) : option Q :=
  match fuel with
  | O => None
  | S k =>
      let mid := Qred (Fit_bs_mid lb ub) in      (* Qred: same rational, normal form (keeps sizes bounded) *)
      let val := f mid in
      if Fit_bs_done val target tol then Some mid
      else if Fit_bs_up val target
           then binsearch_Q k f (Fit_bs_up_lb mid) (Fit_bs_up_ub ub) target tol
           else binsearch_Q k f (Fit_bs_dn_lb lb) (Fit_bs_dn_ub mid) target tol
  end.

Definition bs_fuel : nat := 200.

(* value of _get_init_cap(battery_cap).  FVinf = float +inf (closed form divided by 0.0);
   FVrec = binsearch did not stop within bs_fuel halvings (Python: RecursionError — happens only
   for malformed requests, e.g. a negative energy; excluded for valid ones by C15_fit_bisect) *)
Inductive fitval := FV (init : Q) | FVinf | FVrec.

(* the binsearch call of _get_init_cap (arguments are generated expressions) *)
Definition run_bs_Q (delta m n ts : Q) : option Q :=
  binsearch_Q bs_fuel (Fit_delta_from m n ts) (Fit_bs_lb m n) Fit_bs_ub (Fit_bs_target delta) Fit_bs_tol.

Definition of_bs_Q (o : option Q) (k : Q -> Q) : fitval :=
  match o with Some x => FV (k x) | None => FVrec end.

(* _get_init_cap(cap): the generated function takes the results of its two nested helpers as
   arguments (d0 = delta_soc_from_init_soc(0), bs = binsearch(...)).  Python only runs binsearch
   when control reaches it; here it is run only when the generated function's value depends on it
   (vm_compute is strict; a binsearch that does not terminate must not matter when Python never
   calls it). *)
Definition get_init_cap_Q (E n V T cap : Q) : fitval :=
  let delta := Qred (Fit_delta_soc E cap) in
  let m := Qred (Fit_max_dsoc T V cap) in
  let ts := Fit_transition_soc in
  let d0 := Fit_delta_from m n ts Fit_d0_arg in
  if Qeqb (Fit_cf_denom m n) 0 then
    (* IEEE: delta/0.0 = +inf (delta>0), nan (delta=0), -inf (delta<0); `nan >= ts` and
       `-inf >= ts` are False, so the part after the closed-form test runs *)
    if Qltb 0 delta then FVinf
    else if Qltb d0 delta then FV (-(1)) else of_bs_Q (run_bs_Q delta m n ts) (fun bs => bs * cap)
  else
    let r := fun bs => Fit_get_init_cap T E n V cap bs d0 in
    if Qeqb (r 0) (r 1) then FV (r 0) else of_bs_Q (run_bs_Q delta m n ts) r.

Inductive fitres := FitOk (cap init : Q) | FitInf (cap : Q) | FitNone | FitRec.

Fixpoint ladder_Q (caps : list Q) (E n V T : Q) : fitres :=
  match caps with
  | [] => FitNone                                   (* raise ValueError("No feasible battery size found.") *)
  | cap :: rest =>
      if Fit_skip_cap cap E then ladder_Q rest E n V T
      else match get_init_cap_Q E n V T cap with
           | FVinf => FitInf cap                    (* inf >= 0 *)
           | FVrec => FitRec
           | FV init => if Fit_accept_init init then FitOk cap init else ladder_Q rest E n V T
           end
  end.

Definition potential_caps_Q : list Q := map inject_Z potential_caps_Z.
Definition batt_cap_fn_Q (E n V T : Q) : fitres := ladder_Q potential_caps_Q E n V T.

(* ------------------------------------------------------------------------------------------ *)
(* battery construction                                                                       *)
(* ------------------------------------------------------------------------------------------ *)
Inductive bparams :=
| BP_default          (* None or {"type": Battery} *)
| BP_fit.             (* {"type": Linear2StageBattery, "capacity_fn": batt_cap_fn} *)

Definition E_INIT := "ValueError:Initial Charge cannot be greater than capacity.".
Definition E_NOFIT := "ValueError:No feasible battery size found.".
Definition E_REC := "RecursionError".
Definition E_VSTACK := "ValueError:need at least one array to concatenate".

(* (cap, init) handed to the battery constructor, then Battery.__init__'s guard *)
Definition size_battery (bp : bparams) (dflt : Q * Q) (energy : Q) (stay : Z) (V T : Q) : res (Q * Q) :=
  match bp with
  | BP_default =>
      let '(cap, init) := dflt in
      if Battery_init_bad cap init then Err E_INIT else Ok (cap, init)
  | BP_fit =>
      match batt_cap_fn_Q energy (inject_Z stay) V T with
      | FitNone => Err E_NOFIT
      | FitInf _ => Err E_INIT
      | FitRec => Err E_REC
      | FitOk cap init => if Battery_init_bad cap init then Err E_INIT else Ok (cap, init)
      end
  end.

Record ev_obs := { ev_arrival : Z; ev_departure : Z; ev_requested : Q; ev_cap : Q; ev_init : Q }.

(* ------------------------------------------------------------------------------------------ *)
(* ACN-Data path                                                                              *)
(* ------------------------------------------------------------------------------------------ *)
(* a session document: POSIX timestamps (seconds, = dt.timestamp()) of connectionTime and
   disconnectTime, kWhDelivered *)
Definition doc := (Q * Q * Q)%type.

Definition convert_to_ev (offset : Z) (T V maxP : Q) (max_len : option Z) (bp : bparams) (ff : bool)
           (d : doc) : res ev_obs :=
  let '(conn, disc, kwh) := d in
  let '(arr, dep, e) := Conv_session kwh offset T maxP max_len ff
                                     (DT_timestamp T false conn) (DT_timestamp T false disc) in
  match size_battery bp (Conv_default_cap e, Conv_default_init) e (dep - arr)%Z V T with
  | Err s => Err s
  | Ok (cap, init) => Ok {| ev_arrival := arr; ev_departure := dep; ev_requested := e;
                            ev_cap := cap; ev_init := init |}
  end.

Fixpoint res_all {A B} (f : A -> res B) (l : list A) : res (list B) :=
  match l with
  | [] => Ok []
  | x :: r => match f x with
              | Err s => Err s
              | Ok y => match res_all f r with Err s => Err s | Ok ys => Ok (y :: ys) end
              end
  end.

Definition get_evs (start : Q) (T V maxP : Q) (max_len : option Z) (bp : bparams) (ff : bool)
           (docs : list doc) : res (list ev_obs) :=
  let offset := DT_timestamp T false start in
  res_all (convert_to_ev offset T V maxP max_len bp ff) docs.

(* ------------------------------------------------------------------------------------------ *)
(* stochastic path                                                                            *)
(* ------------------------------------------------------------------------------------------ *)
Definition row := (Q * Q * Q)%type.     (* arrival [h], duration [h], energy [kWh] *)
Record clipb := { a_min : Q; a_max : Q; d_min : Q; d_max : Q; e_min : Q; e_max : Q }.

Definition clip_row (b : clipb) (r : row) : row :=
  let '(a, d, e) := r in
  (Clip_arrival (a_max b) (a_min b) a, Clip_duration (d_max b) (d_min b) d, Clip_energy (e_max b) (e_min b) e).

(* one valid row of _convert_ev_matrix *)
Definition stoch_convert_row (T V maxP : Q) (max_len : option Q) (bp : bparams) (ff : bool) (r : row)
  : res ev_obs :=
  let '(a, d, e) := r in
  let '(arr, dep, en, _) := Stoch_row a d e (Stoch_pph T) maxP max_len ff in
  match size_battery bp (Stoch_default_cap en, Stoch_default_init) en (dep - arr)%Z V T with
  | Err s => Err s
  | Ok (cap, init) => Ok {| ev_arrival := arr; ev_departure := dep; ev_requested := en;
                            ev_cap := cap; ev_init := init |}
  end.

(* the loop: invalid rows are skipped, ids are the row indices of the whole matrix *)
Fixpoint convert_ev_matrix_from (i : Z) (T V maxP : Q) (max_len : option Q) (bp : bparams) (ff : bool)
         (rows : list row) : res (list (Z * ev_obs)) :=
  match rows with
  | [] => Ok []
  | ((a, d, e) as r) :: rest =>
      if Stoch_invalid a d e then convert_ev_matrix_from (i + 1) T V maxP max_len bp ff rest
      else match stoch_convert_row T V maxP max_len bp ff r with
           | Err s => Err s
           | Ok o => match convert_ev_matrix_from (i + 1) T V maxP max_len bp ff rest with
                     | Err s => Err s
                     | Ok os => Ok ((i, o) :: os)
                     end
           end
  end.
Definition convert_ev_matrix := convert_ev_matrix_from 0%Z.

(* generate_events: per day d with a non-empty sample: sample() (= clip_samples of the raw
   draw), arrival += 24*d; vstack; _convert_ev_matrix.  `days` are the raw draws. *)
Fixpoint day_rows (b : clipb) (dnum : Z) (days : list (list row)) : list row :=
  match days with
  | [] => []
  | raw :: rest =>
      map (fun r => let '(a, d, e) := clip_row b r in (a + Stoch_day_shift dnum, d, e)) raw
          ++ day_rows b (dnum + 1) rest
  end.

Definition generate_events (b : clipb) (T V maxP : Q) (max_len : option Q) (bp : bparams) (ff : bool)
           (days : list (list row)) : res (list (Z * ev_obs)) :=
  if forallb (fun raw => match raw with [] => true | _ => false end) days
  then Err E_VSTACK                                   (* np.vstack([]) *)
  else convert_ev_matrix T V maxP max_len bp ff (day_rows b 0 days).

(* ------------------------------------------------------------------------------------------ *)
(* charging the fitted battery at max_rate for the whole stay (noise-free continuous kernel)  *)
(* ------------------------------------------------------------------------------------------ *)
Definition l2_step_Q (cap maxP ts pilot V T charge : Q) : Q :=
  (* the stored charge is rounded down to a multiple of 2^-100 kWh after every period (the code
     rounds to 2^-53 relative after every operation); keeps the rationals small *)
  qround 100 (L2f_charge__current_charge (stateS (L2f_charge cap charge 0 maxP 0 ts pilot V T 0))).

Fixpoint l2_run_Q (n : nat) (cap maxP ts pilot V T charge : Q) : Q :=
  match n with
  | O => charge
  | S k => l2_run_Q k cap maxP ts pilot V T (l2_step_Q cap maxP ts pilot V T charge)
  end.

(* battery the fit assumes: max_power = max_rate * V / 1000 *)
Definition fit_max_power (V : Q) : Q := Fit_max_rate * V / 1000.

(* ------------------------------------------------------------------------------------------ *)
(* correspondence cases                                                                       *)
(* ------------------------------------------------------------------------------------------ *)
Definition obs_eqb (m i : ev_obs) : bool :=
  Z.eqb (ev_arrival m) (ev_arrival i) && Z.eqb (ev_departure m) (ev_departure i)
  && Qclose (ev_requested m) (ev_requested i) && Qclose (ev_cap m) (ev_cap i)
  && Qclose (ev_init m) (ev_init i).

Definition iobs_eqb (m i : Z * ev_obs) : bool := Z.eqb (fst m) (fst i) && obs_eqb (snd m) (snd i).

(* stream 1: get_evs on a list of documents *)
Record c15case := {
  c_start : Q; c_T : Q; c_V : Q; c_maxP : Q; c_max_len : option Z; c_bp : bparams; c_ff : bool;
  c_docs : list doc;
  i_evs : res (list ev_obs)
}.
Definition check_c15 (c : c15case) : bool :=
  res_eqb (list_eqb obs_eqb)
          (get_evs (c_start c) (c_T c) (c_V c) (c_maxP c) (c_max_len c) (c_bp c) (c_ff c) (c_docs c))
          (i_evs c).

(* stream 2: GaussianMixtureEvents(stub gmm).generate_events *)
Record c15stoch := {
  s_clip : clipb; s_T : Q; s_V : Q; s_maxP : Q; s_max_len : option Q; s_bp : bparams; s_ff : bool;
  s_days : list (list row);
  i_sevs : res (list (Z * ev_obs))
}.
Definition check_c15_stoch (c : c15stoch) : bool :=
  res_eqb (list_eqb iobs_eqb)
          (generate_events (s_clip c) (s_T c) (s_V c) (s_maxP c) (s_max_len c) (s_bp c) (s_ff c) (s_days c))
          (i_sevs c).

(* stream 3: batt_cap_fn(E, n, V, T), then the fitted real Linear2StageBattery charged at 32 A
   for n periods.  i_fit: 0 = (cap, init) returned, 1 = (cap, +inf), 2 = ValueError, 3 = RecursionError,
   4 = (cap, init) returned but the Battery constructor refuses it (init > cap; negative requests only) *)
Record c15fit := {
  f_E : Q; f_n : nat; f_V : Q; f_T : Q;
  i_fit : Z; i_cap : Q; i_init : Q; i_final : Q   (* final stored charge after n periods *)
}.
Definition check_c15_fit (c : c15fit) : bool :=
  match batt_cap_fn_Q (f_E c) (inject_Z (Z.of_nat (f_n c))) (f_V c) (f_T c) with
  | FitNone => Z.eqb (i_fit c) 2
  | FitRec => Z.eqb (i_fit c) 3
  | FitInf cap => Z.eqb (i_fit c) 1 && Qeqb cap (i_cap c)
  | FitOk cap init =>
      if Battery_init_bad cap init      (* Linear2StageBattery(cap, init, ...) raises ValueError *)
      then Z.eqb (i_fit c) 4 && Qeqb cap (i_cap c) && Qclose init (i_init c)
      else
      Z.eqb (i_fit c) 0 && Qeqb cap (i_cap c) && Qclose init (i_init c)
      && Qclose (l2_run_Q (f_n c) cap (fit_max_power (f_V c)) Fit_transition_soc Fit_max_rate
                          (f_V c) (f_T c) init) (i_final c)
  end.
