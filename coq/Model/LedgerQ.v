(* Model/LedgerQ.v — executable (Q) instance of the ledger model: the kernels are the functions
   regenerated from /repo (Gen/Battery_Q.v, Gen/Evse_Q.v, Gen/Ledger_Q.v), the EVSE acceptance
   predicates come from Model/EVSE.v (C13).  Also the correspondence case of C02.  Definitions only. *)
From Coq Require Import ZArith QArith Qminmax Qabs Qround List Bool String.
From ACN Require Import Base.Num Base.ListX Gen.Evse_Q Gen.EvseZ_Z Gen.Battery_Q Gen.Ledger_Q
                        Model.EVSE Model.Ledger.
Import ListNotations.
Open Scope Q_scope.

(* integer square root on a 2^-60 grid: |qsqrt x - sqrt x| <= 2^-60; validated against math.sqrt by
   the C18 correspondence, no theorem relies on it (the theorems use R's sqrt) *)
Definition qsqrt (x : Q) : Q :=
  if Qleb x 0 then 0
  else Z.sqrt (Qfloor (x * inject_Z (2 ^ 120))) # (2 ^ 60).

(* sums / products are kept in lowest terms (Qred x == x): the values are unchanged, the terms stay small *)
Definition QO : fops Q :=
  {| o0 := 0; o1 := 1; oadd := fun a b => Qred (a + b); osub := fun a b => Qred (a - b);
     omul := fun a b => Qred (a * b); odiv := fun a b => Qred (a / b);
     oofZ := inject_Z; omax := Qmax; oltb := Qltb; oeqb := Qeqb; osqrt := qsqrt |}.

(* Battery.charge / Linear2StageBattery.charge (dispatch on charge_calculation) *)
Definition batt_step_Q (b : batt Q) (p v t : Q) (n : Q * Q) : option (Q * batt Q) :=
  match b_kind b with
  | BIdeal =>
      match Battery_charge (b_cap b) (b_cur b) (b_pow b) (b_maxp b) p v t with
      | OkS o => Some (Battery_charge_ret o,
                       mk_batt BIdeal (b_cap b) (Qred (Battery_charge__current_charge o))
                               (Qred (Battery_charge__current_charging_power o)) (b_maxp b) (b_noise b) (b_tsoc b))
      | ErrS _ _ => None
      end
  | BL2cont =>
      match L2_charge (b_cap b) (b_cur b) (b_pow b) (b_maxp b) (b_noise b) (b_tsoc b) p v t (fst n) with
      | OkS o => Some (L2_charge_ret o,
                       mk_batt BL2cont (b_cap b) (Qred (L2_charge__current_charge o))
                               (Qred (L2_charge__current_charging_power o)) (b_maxp b) (b_noise b) (b_tsoc b))
      | ErrS _ _ => None
      end
  | BL2step =>
      match L2_charge_stepwise (b_cap b) (b_cur b) (b_pow b) (b_maxp b) (b_noise b) (b_tsoc b) p v t (fst n) (snd n) with
      | OkS o => Some (L2_charge_stepwise_ret o,
                       mk_batt BL2step (b_cap b) (Qred (L2_charge_stepwise__current_charge o))
                               (Qred (L2_charge_stepwise__current_charging_power o)) (b_maxp b) (b_noise b) (b_tsoc b))
      | ErrS _ _ => None
      end
  end.

Definition set_pilot_Q (ev : option Z) (p v t : Q) (valid : bool) : option (option (Q * Q * Q)) :=
  match BaseEVSE_set_pilot 0 ev p v t valid with
  | ErrS _ _ => None
  | OkS o =>
      match BaseEVSE_set_pilot_effects o with
      | [] => Some None
      | [(_, [p'; v'; t'])] => Some (Some (p', v', t'))
      | _ => None
      end
  end.

Definition ev_charge_Q (e p v t r : Q) : Q * Q * Q :=
  let o := EV_charge e p v t r in
  (EV_charge_ret o, Qred (EV_charge__energy_delivered o), EV_charge__current_charging_rate o).

Definition KQ : kern Q (batt Q) :=
  {| k_set_pilot := set_pilot_Q; k_ev_charge := ev_charge_Q; k_bstep := batt_step_Q;
     k_bcharge := b_cur; k_rate_elt := CN_current_rate_elt; k_peak := Sim_peak_update;
     k_peak_init := Sim_peak_init |}.

(* ---------------------------------------------------------------- correspondence case (C02) *)
Record c02case := {
  c_period : Q;
  c_net : list (Z * Q * evse_kind);             (* station number, voltage, EVSE class *)
  c_ops : list (@op Q (batt Q));
  (* recorded from the implementation *)
  i_ok : bool;                                   (* run() returned normally *)
  i_rates : list (list Q);                       (* charging_rates[:, :iteration].T (one list per period) *)
  i_occ : list (list (option Z));                (* session at each station in post_charging_update *)
  i_peak : Q;
  i_evs : list (Z * (Q * Q * Q * Q));            (* session -> energy_delivered, _current_charge, charge via to_json, _current_charging_rate *)
  i_total : Q;                                   (* acnsim.total_energy_delivered *)
  i_agg_current : list Q;                        (* acnsim.aggregate_current[:iteration] *)
  i_agg_power : list Q                           (* acnsim.aggregate_power[:iteration] *)
}.

Definition mk_net (l : list (Z * Q * evse_kind)) : list (stn (F:=Q)) :=
  map (fun x => let '(i, v, k) := x in mk_stn i v (valid_rate k)) l.

Definition Qlist_close (a b : list Q) : bool := list_eqb Qclose a b.

Fixpoint find_ev (x : Z) (l : list (@ev Q (batt Q))) : option (@ev Q (batt Q)) :=
  match l with
  | [] => None
  | e :: r => if Z.eqb (e_sid e) x then Some e else find_ev x r
  end.

Definition dotQ (a b : list Q) : Q := Qsum (map (fun p => fst p * snd p) (combine a b)).

Definition check_c02 (c : c02case) : bool :=
  let net := mk_net (c_net c) in
  match simulate QO KQ (c_period c) net (c_ops c) with
  | None => negb (i_ok c)
  | Some st =>
      let T := c_period c in
      let rs := rates_by_period st in
      i_ok c
      && list_eqb Qlist_close rs (i_rates c)
      && list_eqb (list_eqb (option_eqb Z.eqb)) (occupancy_by_period st) (i_occ c)
      && Qclose (peak st) (i_peak c)
      && Nat.eqb (List.length (all_evs st)) (List.length (i_evs c))
      && forallb (fun r => let '(x, (en, ch, chj, cr)) := r in
                   match find_ev x (all_evs st) with
                   | None => false
                   | Some e => Qclose (e_energy e) en && Qclose (b_cur (e_batt e)) ch
                               && Qclose (b_cur (e_batt e)) chj && Qclose (e_rate e) cr
                               (* the ledger, evaluated by the model on the model's own state *)
                               && Qclose (e_energy e) (ledger_sum QO T net (cols st) (occs st) x)
                   end) (i_evs c)
      && Qclose (Qsum (map e_energy (all_evs st))) (i_total c)
      && Qlist_close (map Qsum rs) (i_agg_current c)
      && Qlist_close (map (fun col => dotQ (map s_volt net) col / 1000) rs) (i_agg_power c)
  end.

(* the ledger equalities evaluated EXACTLY (Qeq, no tolerance) by the executable twin on its own run;
   used by Example C02_exec_example *)
Definition ledger_exact_Q (T : Q) (net : list (stn (F:=Q))) (ops : list (@op Q (batt Q))) : bool :=
  match simulate QO KQ T net ops with
  | None => false
  | Some st =>
      forallb (fun e =>
                 Qeq_bool (e_energy e) (ledger_sum QO T net (cols st) (occs st) (e_sid e))
                 && match init_charge KQ ops (e_sid e) with
                    | Some c0 => Qeq_bool (e_energy e) (b_cur (e_batt e) - c0) && Qltb 0 (e_energy e)
                    | None => false
                    end) (all_evs st)
      && Qeq_bool (Qsum (map e_energy (all_evs st)))
                  (Qsum (map (fun col => dotQ (map s_volt net) col / 1000 * (T / 60)) (cols st)))
      && Qeq_bool (peak st) (fold_right (fun col acc => Qmax acc (Qsum col)) 0 (cols st))
      && Nat.eqb (List.length (all_evs st)) 3
  end.
