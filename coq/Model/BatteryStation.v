(* Model/BatteryStation.v — executable (Q) model of what a simulation records for one station:
   every period the network calls EVSE.set_pilot(pilot, V, period) (generated BaseEVSE_set_pilot, with the
   class's generated _valid_rate from Model/EVSE.v deciding acceptance),
   whose effect on an attached EV is EV.charge (generated EV_charge) on top of Battery.charge
   (Model/Battery.v charge_call); Simulator._store_actual_charging_rates records
   ev.current_charging_rate, or 0 for a station without EV.  Definitions only. *)
From Coq Require Import ZArith QArith Qminmax Qabs List Bool String.
From ACN Require Import Base.Num Base.QExp Gen.Battery_Q Gen.Evse_Q Model.EVSE Model.Battery.
Import ListNotations.
Open Scope Q_scope.

(* state of one session's EV *)
Record evstate := { e_batt : bstate; e_delivered : Q; e_rate : Q }.

(* one simulated period at the station *)
Inductive slot :=
| Empty (pilot V T : Q)                              (* no EV attached *)
| Occupied (sess : nat) (pilot V T n1 n2 : Q).       (* session index; noise draws *)

Record station_out := { so_pilot : Q; so_rate : Q; so_err : option string }.

(* interpret the effects emitted by set_pilot on the attached EV *)
Definition apply_effects (b : battery) (e : evstate) (n1 n2 : Q) (effs : list (string * list Q)) : evstate * option string :=
  fold_left (fun (acc : evstate * option string) (eff : string * list Q) =>
    let '(e, err) := acc in
    match err, snd eff with
    | None, [p; v; t] =>
        let r := norm_res (charge_call b (e_batt e) p v t n1 n2) in
        match r_err r with
        | Some x => (e, Some x)                      (* Battery.charge raised: EV.charge did not update anything *)
        | None =>
            let o := EV_charge (e_delivered e) p v t (r_rate r) in
            ({| e_batt := r_state r; e_delivered := Qred (EV_charge__energy_delivered o);
                e_rate := EV_charge__current_charging_rate o |}, None)
        end
    | _, _ => acc
    end) effs (e, None).

Fixpoint set_nth {A} (n : nat) (x : A) (l : list A) : list A :=
  match n, l with
  | O, _ :: r => x :: r
  | S n', y :: r => y :: set_nth n' x r
  | _, [] => []
  end.

Definition ev0 (b : battery) : evstate := {| e_batt := initial_state b; e_delivered := 0; e_rate := 0 |}.

(* run the slots; sessions: battery of each session; evs: current EV states *)
Fixpoint run_station (k : evse_kind) (batts : list battery) (evs : list evstate) (cur : Q) (slots : list slot) : list station_out * list evstate :=
  match slots with
  | [] => ([], evs)
  | Empty p v t :: rest =>
      let r := BaseEVSE_set_pilot cur None p v t (valid_rate k p) in
      let cur' := BaseEVSE_set_pilot__current_pilot (stateS r) in
      let '(outs, evs') := run_station k batts evs cur' rest in
      ({| so_pilot := cur'; so_rate := 0; so_err := errS r |} :: outs, evs')
  | Occupied i p v t n1 n2 :: rest =>
      let r := BaseEVSE_set_pilot cur (Some (Z.of_nat i)) p v t (valid_rate k p) in
      let cur' := BaseEVSE_set_pilot__current_pilot (stateS r) in
      let b := nth i batts {| b_kind := Ideal; b_cap := 0; b_maxP := 0; b_init := 0 |} in
      let e := nth i evs (ev0 b) in
      let '(e', err) := apply_effects b e n1 n2 (BaseEVSE_set_pilot_effects (stateS r)) in
      let '(outs, evs') := run_station k batts (set_nth i e' evs) cur' rest in
      ({| so_pilot := cur'; so_rate := e_rate e'; so_err := err |} :: outs, evs')
  end.

(* ---- correspondence case: one station of a real simulation ---- *)
Record stationcase := {
  st_evse : evse_kind;              (* EVSE class and parameters of the station (Model/EVSE.v) *)
  st_batts : list battery;
  st_slots : list slot;
  (* recorded from the simulation: pilot_signals row, charging_rates row, and per session the final
     energy_delivered and battery charge *)
  st_pilots : list Q; st_rates : list Q;
  st_final : list (Q * Q)
}.

Definition check_station (c : stationcase) : bool :=
  let '(outs, evs) := run_station (st_evse c) (st_batts c) (map ev0 (st_batts c)) 0 (st_slots c) in
  list_eqb Qeqb (map so_pilot outs) (st_pilots c)
  && forallb (fun o => match so_err o with None => true | Some _ => false end) outs
  && all2 Qclose (map so_rate outs) (st_rates c)
  && all2 (fun e f => Qclose (e_delivered e) (fst f) && Qclose (s_charge (e_batt e)) (snd f)) evs (st_final c).
