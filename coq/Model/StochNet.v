(* Model/StochNet.v — executable model of
     acnportal/contrib/acnsim/network/stochastic_network.py :: StochasticNetwork
   (plugin / unplug / post_charging_update / available_evses), of the two base-class methods it
   calls (ChargingNetwork.plugin, via super()) and of the way Simulator._process_event and
   Simulator.run drive it (network.plugin(ev); network.unplug(ev.station_id, ev.session_id);
   network.post_charging_update() once per period).

   Station ids and session ids are integers (the harness numbers the strings).  An EV object is
   identified with its session id; the one mutable EV attribute the network writes,
   ev.station_id (EV.update_station_id), is the association list [station_of].
   random.choice(available_spots) is the [draws]-th value of an ARBITRARY function
   [ch : nat -> nat], reduced modulo the number of free stations: every seed of every PRNG is
   some [ch], and every [ch] is a legal behaviour of random.choice.

   The EVSE-level plugin/unplug are the kernels regenerated from evse.py (Gen/EvseZ_Z.v).
   Definitions only; proofs are in Proofs/StochNet.v. *)
From Coq Require Import ZArith List Bool String Arith.
From ACN Require Import Base.Num Gen.EvseZ_Z.
Import ListNotations.
Open Scope Z_scope.

Record net := mk_net {
  evses : list (Z * option Z);        (* _EVSEs : OrderedDict station_id -> EVSE; we keep EVSE.ev (a session id) *)
  queue : list Z;                     (* waiting_queue : OrderedDict session_id -> EV, keys in order *)
  station_of : list (Z * option Z);   (* ev.station_id of every EV object handed to the network (latest binding first) *)
  swaps : Z;
  never_charged : Z;
  early_unplug : Z;
  early : bool;                       (* early_departure *)
  draws : nat;                        (* number of random.choice calls so far *)
  gone : list Z                       (* log: sessions removed from a station or from the queue by unplug, latest first *)
}.

Definition set_evses (st : net) (v : list (Z * option Z)) : net :=
  mk_net v (queue st) (station_of st) (swaps st) (never_charged st) (early_unplug st) (early st) (draws st) (gone st).
Definition set_queue (st : net) (v : list Z) : net :=
  mk_net (evses st) v (station_of st) (swaps st) (never_charged st) (early_unplug st) (early st) (draws st) (gone st).
Definition set_station_of (st : net) (v : list (Z * option Z)) : net :=
  mk_net (evses st) (queue st) v (swaps st) (never_charged st) (early_unplug st) (early st) (draws st) (gone st).
Definition set_swaps (st : net) (v : Z) : net :=
  mk_net (evses st) (queue st) (station_of st) v (never_charged st) (early_unplug st) (early st) (draws st) (gone st).
Definition set_never_charged (st : net) (v : Z) : net :=
  mk_net (evses st) (queue st) (station_of st) (swaps st) v (early_unplug st) (early st) (draws st) (gone st).
Definition set_early_unplug (st : net) (v : Z) : net :=
  mk_net (evses st) (queue st) (station_of st) (swaps st) (never_charged st) v (early st) (draws st) (gone st).
Definition set_draws (st : net) (v : nat) : net :=
  mk_net (evses st) (queue st) (station_of st) (swaps st) (never_charged st) (early_unplug st) (early st) v (gone st).
Definition set_gone (st : net) (v : list Z) : net :=
  mk_net (evses st) (queue st) (station_of st) (swaps st) (never_charged st) (early_unplug st) (early st) (draws st) v.

(* StochasticNetwork() followed by register_evse for each station, in this order *)
Definition init (stations : list Z) (early_departure : bool) : net :=
  mk_net (map (fun s => (s, None)) stations) [] [] 0 0 0 early_departure O [].

(* ---- small dictionary helpers ---- *)
Definition zmem (x : Z) (l : list Z) : bool := existsb (Z.eqb x) l.
Definition zremove (x : Z) (l : list Z) : list Z := filter (fun y => negb (Z.eqb x y)) l.

(* d[s] = v on an existing key: position kept *)
Definition set_occ (s : Z) (v : option Z) (l : list (Z * option Z)) : list (Z * option Z) :=
  map (fun p => if Z.eqb (fst p) s then (fst p, v) else p) l.

Definition is_none {A} (o : option A) : bool := match o with None => true | Some _ => false end.

(* available_evses: ids of the EVSEs with evse.ev is None, in registration order *)
Definition available (l : list (Z * option Z)) : list Z :=
  map fst (filter (fun p => is_none (snd p)) l).

(* sessions connected to some station, in station order *)
Definition occupants (l : list (Z * option Z)) : list Z :=
  flat_map (fun p => match snd p with Some x => [x] | None => [] end) l.

(* ev.station_id *)
Definition ev_station (st : net) (x : Z) : option Z :=
  match zassoc x (station_of st) with Some o => o | None => None end.

(* ev.update_station_id(v) *)
Definition update_station_id (st : net) (x : Z) (v : option Z) : net :=
  set_station_of st ((x, v) :: station_of st).

(* ChargingNetwork.plugin(ev):
     if ev.station_id in self._EVSEs: self._EVSEs[ev.station_id].plugin(ev) else: raise KeyError *)
Definition base_plugin (st : net) (x : Z) : res net :=
  match ev_station st x with
  | None => Err "KeyError"
  | Some s =>
      match zassoc s (evses st) with
      | None => Err "KeyError"
      | Some occ =>
          match BaseEVSE_plugin occ x with
          | OkS o => Ok (set_evses st (set_occ s (BaseEVSE_plugin__ev o) (evses st)))
          | ErrS e _ => Err e
          end
      end
  end.

(* StochasticNetwork.plugin(ev) *)
Definition net_plugin (ch : nat -> nat) (st : net) (x : Z) : res net :=
  let av := available (evses st) in
  if (0 <? Z.of_nat (List.length av)) then
    let chosen := nth (Nat.modulo (ch (draws st)) (List.length av)) av 0 in
    let st1 := set_draws st (S (draws st)) in
    base_plugin (update_station_id st1 x (Some chosen)) x
  else
    let st1 := update_station_id st x None in
    (* self.waiting_queue[sid] = ev ; move_to_end(sid) *)
    Ok (set_queue st1 (zremove x (queue st1) ++ [x])%list).

(* StochasticNetwork.unplug(station_id, session_id); the simulator always passes a session id,
   station_id may be None (an EV that is still waiting) *)
Definition net_unplug (st : net) (sid : option Z) (x : Z) : res net :=
  if zmem x (queue st) then
    Ok (set_gone (set_never_charged (set_queue st (zremove x (queue st))) (never_charged st + 1))
                 (x :: gone st))
  else
    match sid with
    | None => Err "KeyError"                       (* None is not a registered station *)
    | Some s =>
        match zassoc s (evses st) with
        | None => Err "KeyError"
        | Some None => Ok st                       (* station empty: pass *)
        | Some (Some y) =>
            if Z.eqb x y then
              let st1 := set_gone (set_evses st (set_occ s (BaseEVSE_unplug__ev BaseEVSE_unplug) (evses st)))
                                  (x :: gone st) in
              if (0 <? Z.of_nat (List.length (queue st1))) then
                match queue st1 with
                | [] => Ok st1
                | h :: t =>                          (* popitem(last=False) *)
                    let st2 := update_station_id (set_queue st1 t) h (Some s) in
                    match base_plugin st2 h with
                    | Ok st3 => Ok (set_swaps st3 (swaps st3 + 1))
                    | Err e => Err e
                    end
                end
              else Ok st1
            else Ok st                             (* another session is there: nothing happens *)
        end
    end.

(* StochasticNetwork.post_charging_update(); [full] = the sessions whose ev.fully_charged is true *)
Definition post_one (acc : res net) (y : Z) : res net :=
  match acc with
  | Err e => Err e
  | Ok st =>
      if (0 <? Z.of_nat (List.length (queue st))) then
        match net_unplug st (ev_station st y) y with
        | Ok st1 => Ok (set_early_unplug st1 (early_unplug st1 + 1))
        | Err e => Err e
        end
      else Ok st
  end.

Definition net_post (st : net) (full : list Z) : res net :=
  if early st then
    let fully_charged_evs := filter (fun y => zmem y full) (occupants (evses st)) in
    fold_left post_one fully_charged_evs (Ok st)
  else Ok st.

(* ---- what the simulator does with the network ---- *)
Inductive event :=
| Arrive (x : Z)            (* Plugin event:  network.plugin(ev) *)
| Depart (x : Z)            (* Unplug event:  network.unplug(ev.station_id, ev.session_id) *)
| PostCharge (full : list Z). (* end of a period: network.post_charging_update() *)

Definition step (ch : nat -> nat) (st : net) (e : event) : res net :=
  match e with
  | Arrive x => net_plugin ch st x
  | Depart x => net_unplug st (ev_station st x) x
  | PostCharge full => net_post st full
  end.

Fixpoint run (ch : nat -> nat) (st : net) (evs : list event) : res net :=
  match evs with
  | [] => Ok st
  | e :: r => match step ch st e with Ok st1 => run ch st1 r | Err m => Err m end
  end.

(* ---- vocabulary of the C19 statements ---- *)
Fixpoint arrivals (evs : list event) : list Z :=
  match evs with
  | [] => []
  | Arrive x :: r => x :: arrivals r
  | _ :: r => arrivals r
  end.
Fixpoint departures (evs : list event) : list Z :=
  match evs with
  | [] => []
  | Depart x :: r => x :: departures r
  | _ :: r => departures r
  end.

(* each session is plugged in once and unplugged at most once, after its plugin (C01) *)
Definition wf (evs : list event) : Prop :=
  NoDup (arrivals evs) /\ NoDup (departures evs) /\
  forall (pre : list event) x post, evs = (pre ++ Depart x :: post)%list -> In x (arrivals pre).
(* ... and every session that arrived has been unplugged *)
Definition complete (evs : list event) : Prop :=
  forall x, In x (arrivals evs) -> In x (departures evs).

(* executable versions (sound: Proofs/StochNet.v wfb_sound, completeb_sound); the correspondence
   check evaluates wfb on every recorded history, so the theorems apply to it *)
Fixpoint nodupb (l : list Z) : bool :=
  match l with [] => true | a :: r => negb (zmem a r) && nodupb r end.
Fixpoint dep_after (evs : list event) (seen : list Z) : bool :=
  match evs with
  | [] => true
  | Arrive x :: r => dep_after r (x :: seen)
  | Depart x :: r => zmem x seen && dep_after r seen
  | PostCharge _ :: r => dep_after r seen
  end.
Definition wfb (evs : list event) : bool :=
  nodupb (arrivals evs) && nodupb (departures evs) && dep_after evs [].
Definition completeb (evs : list event) : bool :=
  forallb (fun x => zmem x (departures evs)) (arrivals evs).

Definition at_station (st : net) (s x : Z) : Prop := In (s, Some x) (evses st).
Definition connected (st : net) (x : Z) : Prop := exists s, at_station st s x.
Definition waiting (st : net) (x : Z) : Prop := In x (queue st).
Definition departed (st : net) (x : Z) : Prop := In x (gone st).

(* position of x in the order of arrival (length of the list if x never arrived) *)
Fixpoint pos (l : list Z) (x : Z) : nat :=
  match l with
  | [] => O
  | y :: r => if Z.eqb x y then O else S (pos r x)
  end.
Definition arrival_index (evs : list event) (x : Z) : nat := pos (arrivals evs) x.

(* number of Depart events that found their session in the waiting queue *)
Fixpoint waiting_departures (ch : nat -> nat) (st : net) (evs : list event) : Z :=
  match evs with
  | [] => 0
  | e :: r =>
      (match e with Depart x => if zmem x (queue st) then 1 else 0 | _ => 0 end)
      + match step ch st e with Ok st1 => waiting_departures ch st1 r | Err _ => 0 end
  end.

(* sessions that left without ever having been assigned a station *)
Definition never_assigned (st : net) : list Z :=
  filter (fun x => is_none (ev_station st x)) (gone st).

(* ---- correspondence case: one recorded run of the real Simulator ---- *)
Record snapshot := {
  s_err : option string;                (* exception raised by the implementation in this call, if any *)
  s_occ : list (option Z);              (* evse.ev.session_id per station, registration order *)
  s_queue : list Z;                     (* list(waiting_queue.keys()) *)
  s_station_of : list (Z * option Z);   (* ev.station_id of every EV seen so far *)
  s_swaps : Z; s_never : Z; s_early_unplug : Z;
  s_draws : nat;                        (* random.choice calls so far *)
  s_gone : list Z                       (* sessions seen leaving (state diff), any order *)
}.

Record c19case := {
  c_stations : list Z;
  c_early : bool;
  c_choices : list nat;                 (* index returned by each random.choice call, in order *)
  c_steps : list (event * snapshot)
}.

Definition ooz_eqb := option_eqb Z.eqb.
Definition same_set (a b : list Z) : bool :=
  Nat.eqb (List.length a) (List.length b) && forallb (fun x => zmem x b) a && forallb (fun x => zmem x a) b.

Definition snap_ok (st : net) (s : snapshot) : bool :=
  list_eqb ooz_eqb (map snd (evses st)) (s_occ s)
  && list_eqb Z.eqb (queue st) (s_queue s)
  && forallb (fun p => ooz_eqb (ev_station st (fst p)) (snd p)) (s_station_of s)
  && Z.eqb (swaps st) (s_swaps s) && Z.eqb (never_charged st) (s_never s)
  && Z.eqb (early_unplug st) (s_early_unplug s)
  && Nat.eqb (draws st) (s_draws s)
  && same_set (gone st) (s_gone s).

Fixpoint replay (ch : nat -> nat) (st : net) (steps : list (event * snapshot)) : bool :=
  match steps with
  | [] => true
  | (e, s) :: r =>
      match step ch st e, s_err s with
      | Ok st1, None => snap_ok st1 s && replay ch st1 r
      | Err m, Some m' => String.eqb m m'       (* the run stops at the exception *)
      | _, _ => false
      end
  end.

Definition check_c19 (c : c19case) : bool :=
  wfb (map fst (c_steps c)) &&
  replay (fun k => nth k (c_choices c) O) (init (c_stations c) (c_early c)) (c_steps c)
  && Nat.eqb (List.length (c_choices c))
             (match run (fun k => nth k (c_choices c) O) (init (c_stations c) (c_early c)) (map fst (c_steps c)) with
              | Ok st => draws st | Err _ => List.length (c_choices c) end).
