(* Model/Preproc.v — executable (Q) model of what the sorting-based algorithms see and of
   algorithms/preprocessing.py + upper_bound_estimator.SimpleRampdown + the algorithm-side
   feasibility check (algorithms/utils.py).  Definitions only.

   Hand-written: data structures, loops, dictionary lookups, numpy vector operations.
   Generated (Gen/Sorted_Q.v, Gen/SortedZ_Z.v, re-translated from the repo on every run):
   every scalar expression inside those loops (thresholds, min/max clamps, comparisons, tolerances,
   amp-period conversion, rampdown update rule).  The generated definitions carry the enclosing
   Python function's arguments as dummy parameters; the wrappers below pass 0 for them. *)
From Coq Require Import ZArith QArith Qminmax Qabs Qround List Bool String.
From ACN Require Import Base.Num Base.ListX Gen.Sorted_Q Gen.SortedZ_Z.
Import ListNotations.
Open Scope Q_scope.

(* ------------------------------------------------------------------------------------------
   InfrastructureInfo (acnsim/interface.py).  Stations are numbered by their position in
   station_ids (get_station_index); the phase angles enter as (cos, sin) supplied by the harness. *)
Record infra := {
  i_A : list (list Q);        (* constraint_matrix, M rows of length N *)
  i_L : list Q;               (* constraint_limits *)
  i_cos : list Q;
  i_sin : list Q;
  i_volt : list Q;
  i_maxp : list Q;            (* max_pilot *)
  i_minp : list Q;            (* min_pilot *)
  i_allow : list (list Q);    (* allowable_pilots *)
  i_cont : list bool          (* is_continuous *)
}.

Definition nthQ (l : list Q) (i : nat) : Q := nth i l 0.
Definition n_stations (inf : infra) : nat := List.length (i_maxp inf).

(* SessionInfo.  min_rates / max_rates are float arrays of length remaining_time (built with
   dtype=float since the fix bc3cc97; before it the default bounds gave integer arrays and item
   assignment truncated fractional minimum pilots — witness kept in corpus/C07). *)
Record session := {
  s_station : nat;
  s_id : Z;
  s_req : Q; s_del : Q;
  s_arr : Z; s_dep : Z; s_edep : Z; s_cur : Z;
  s_min : list Q; s_max : list Q
}.

Definition set_max (s : session) (m : list Q) : session :=
  {| s_station := s_station s; s_id := s_id s; s_req := s_req s; s_del := s_del s; s_arr := s_arr s;
     s_dep := s_dep s; s_edep := s_edep s; s_cur := s_cur s; s_min := s_min s; s_max := m |}.
Definition set_min (s : session) (m : list Q) : session :=
  {| s_station := s_station s; s_id := s_id s; s_req := s_req s; s_del := s_del s; s_arr := s_arr s;
     s_dep := s_dep s; s_edep := s_edep s; s_cur := s_cur s; s_min := m; s_max := s_max s |}.

Definition hd0 (l : list Q) : Q := hd 0 l.
(* a[0] = x *)
Definition set_hd (x : Q) (l : list Q) : list Q := match l with [] => [] | _ :: r => x :: r end.

Definition remaining_demand (s : session) : Q := Session_remaining_demand (s_del s) (s_req s).
Definition remaining_time (s : session) : Z := Session_remaining_time (s_arr s) (s_cur s) (s_dep s).

(* Interface.remaining_amp_periods -> _convert_to_amp_periods (evse_voltage looked up by station) *)
Definition rap_iface (inf : infra) (period : Q) (s : session) : Q :=
  Iface_to_amp_periods period (remaining_demand s) 0 (nthQ (i_volt inf) (s_station s)).
(* algorithms.utils.remaining_amp_periods *)
Definition rap_utils (inf : infra) (period : Q) (s : session) : Q :=
  Utils_rap (nthQ (i_volt inf) (s_station s)) (remaining_demand s) 0 0 period 0.

(* ------------------------------------------------------------------------------------------
   algorithms.utils.infrastructure_constraints_feasible (phase-aware branch) on a rate vector:
   for every constraint j:  || [v*cos; v*sin] @ rates ||_2  <=  limit_j + tol_j.
   The norm comparison is executed on squares:  0 <= rhs  /\  re^2 + im^2 <= rhs^2. *)
Fixpoint dot (a x : list Q) : Q :=
  match a, x with
  | ai :: a', xi :: x' => ai * xi + dot a' x'
  | _, _ => 0
  end.

Fixpoint map2 {A B C} (f : A -> B -> C) (l1 : list A) (l2 : list B) : list C :=
  match l1, l2 with
  | a :: r1, b :: r2 => f a b :: map2 f r1 r2
  | _, _ => []
  end.

Record crow := { cr_re : list Q; cr_im : list Q; cr_lim : Q }.

Definition feas_tol (lim : Q) : Q := Feas_tol lim 0 0 0.
Definition feas_rhs (lim : Q) : Q := Feas_rhs lim (feas_tol lim) 0 0 0 0 0.

Definition prep_rows (inf : infra) : list crow :=
  map2 (fun row lim => {| cr_re := map2 (fun v c => Qred (v * c)) row (i_cos inf);
                          cr_im := map2 (fun v s => Qred (v * s)) row (i_sin inf);
                          cr_lim := lim |})
       (i_A inf) (i_L inf).

Definition norm_within (n2 rhs : Q) : bool := Qleb 0 rhs && Qleb n2 (rhs * rhs).

Definition row_ok (x : list Q) (r : crow) : bool :=
  let re := dot (cr_re r) x in
  let im := dot (cr_im r) x in
  norm_within (re * re + im * im) (feas_rhs (cr_lim r)).

Definition feas_rows (rows : list crow) (x : list Q) : bool := forallb (row_ok x) rows.
Definition feasQ (inf : infra) (x : list Q) : bool := feas_rows (prep_rows inf) x.

(* ------------------------------------------------------------------------------------------
   sorting: Python's sorted(key=..., reverse=...) is stable; modelled as stable insertion sort *)
Fixpoint insert_stable {A} (le : A -> A -> bool) (x : A) (l : list A) : list A :=
  match l with
  | [] => [x]
  | y :: r => if le x y then x :: y :: r else y :: insert_stable le x r
  end.
Definition stable_sort {A} (le : A -> A -> bool) (l : list A) : list A :=
  fold_right (insert_stable le) [] l.
(* ascending by key, or descending when reverse=True; equal keys keep their original order *)
Definition sort_by {A} (key : A -> Q) (reverse : bool) (l : list A) : list A :=
  stable_sort (fun x y => if reverse then Qleb (key y) (key x) else Qleb (key x) (key y)) l.

(* ------------------------------------------------------------------------------------------
   preprocessing.py *)
Definition remove_finished_sessions (inf : infra) (period : Q) (ss : list session) : list session :=
  filter (fun s =>
            let i := s_station s in
            Pre_keep (remaining_demand s)
                     (Pre_threshold (nthQ (i_minp inf) i) (nthQ (i_volt inf) i) 0 0 period) 0 0 period) ss.

Definition enforce_pilot_limit (inf : infra) (ss : list session) : list session :=
  map (fun s => set_max s (map (fun x => Pre_pilot_limit (nthQ (i_maxp inf) (s_station s)) x 0 0) (s_max s))) ss.

(* a[mask] = b[mask] for mask = test(a, b) elementwise (arrays of equal length) *)
Fixpoint mask_assign (test : Q -> Q -> bool) (a b : list Q) : list Q :=
  match a, b with
  | x :: a', y :: b' => (if test x y then y else x) :: mask_assign test a' b'
  | _, _ => a
  end.

Definition reconcile_max_and_min (s : session) : session :=
  if Pre_reconcile_choose_min 0 0
  then set_max s (mask_assign (fun mx mn => Pre_reconcile_mask mx mn 0 0) (s_max s) (s_min s))
  else set_min s (mask_assign (fun mn mx => Pre_reconcile_mask mx mn 0 0) (s_min s) (s_max s)).

(* ---- SimpleRampdown.get_maximum_rates ---- *)
Record ramp := {
  r_up_thr : Q; r_down_thr : Q; r_up_inc : Q;
  r_store : list (Z * Q);        (* self.upper_bounds, keyed by SESSION id *)
  r_prev_pilot : list (Z * Q);   (* interface.last_applied_pilot_signals, keyed by session id *)
  r_prev_rate : list (Z * Q)     (* interface.last_actual_charging_rate *)
}.

Fixpoint zassoc_set (k : Z) (v : Q) (l : list (Z * Q)) : list (Z * Q) :=
  match l with
  | [] => [(k, v)]
  | (k', v') :: r => if Z.eqb k k' then (k, v) :: r else (k', v') :: zassoc_set k v r
  end.

Definition ramp_update (rp : ramp) (max_pilot pp pr ub : Q) : Q :=
  let ub1 := if Ramp_down_test (r_down_thr rp) pp pr 0 then Ramp_down_val (r_up_inc rp) pr 0
             else if Ramp_up_test (r_up_thr rp) pr ub 0 then ub + Ramp_up_inc (r_up_inc rp) 0
             else ub in
  Ramp_clip max_pilot ub1 0.

Definition ramp_one (inf : infra) (rp : ramp) (store : list (Z * Q)) (s : session) : list (Z * Q) :=
  let mp := nthQ (i_maxp inf) (s_station s) in
  let store1 := match zassoc (s_id s) store with Some _ => store | None => zassoc_set (s_id s) mp store end in
  match zassoc (s_id s) (r_prev_pilot rp) with
  | None => store1
  | Some pp =>
      let pr := match zassoc (s_id s) (r_prev_rate rp) with Some x => x | None => 0 end in
      let ub := match zassoc (s_id s) store1 with Some u => u | None => mp end in
      zassoc_set (s_id s) (ramp_update rp mp pp pr ub) store1
  end.

Definition rampdown (inf : infra) (rp : ramp) (ss : list session) : list (Z * Q) :=
  fold_left (ramp_one inf rp) ss (r_store rp).

(* apply_upper_bound_estimate: upper_bounds.get(session.session_id, inf), then reconcile *)
Definition apply_bound (store : list (Z * Q)) (s : session) : session :=
  reconcile_max_and_min
    (match zassoc (s_id s) store with
     | Some b => set_max s (map (fun x => Pre_est_min x 0 0 b) (s_max s))
     | None => s
     end).
Definition apply_upper_bound_estimate (store : list (Z * Q)) (ss : list session) : list session :=
  map (apply_bound store) ss.

(* ---- apply_minimum_charging_rate (override = inf) ---- *)
Section MinRate.
  Variable feasible : list Q -> bool.
  Variable inf : infra.
  Variable period : Q.

  Definition min_rate_keep (s : session) (r : Q) : session :=
    reconcile_max_and_min
      (set_min s (set_hd (Pre_min_new r (hd0 (s_min s)) 0 0 period 0) (s_min s))).
  Definition min_rate_drop (s : session) : session :=
    set_max (set_min s (set_hd 0 (s_min s))) (set_hd 0 (s_max s)).

  Fixpoint min_rate_loop (queue : list session) (rates : list Q) : list session * list Q :=
    match queue with
    | [] => ([], rates)
    | s :: q =>
        let i := s_station s in
        let r := nthQ (i_minp inf) i in
        let rates1 := upd i r rates in
        if Pre_min_ok r 0 0 period 0 (feasible rates1) (rap_utils inf period s)
        then let '(out, fin) := min_rate_loop q rates1 in (min_rate_keep s r :: out, fin)
        else let '(out, fin) := min_rate_loop q (upd i 0 rates1) in (min_rate_drop s :: out, fin)
    end.

  Definition apply_minimum_charging_rate (ss : list session) : list session :=
    let queue := sort_by (fun s => inject_Z (remaining_time s)) false ss in
    fst (min_rate_loop queue (repeat 0 (n_stations inf))).
End MinRate.

(* SortedSchedulingAlgo.run_preprocessing; also returns the estimator's store after the call *)
Definition run_preprocessing (feasible : list Q -> bool) (inf : infra) (period : Q)
           (est : option ramp) (unint : bool) (ss : list session) : list session * list (Z * Q) :=
  let s1 := remove_finished_sessions inf period ss in
  let s2 := enforce_pilot_limit inf s1 in
  let '(s3, store) := match est with
                      | Some rp => let st := rampdown inf rp s2 in (apply_upper_bound_estimate st s2, st)
                      | None => (s2, [])
                      end in
  let s4 := if unint then apply_minimum_charging_rate feasible inf period s3 else s3 in
  (s4, store).
